package main

// Symbolic encoder: go/ssa function body -> SMT definitions + obligations.

import (
	"sort"
	"fmt"
	"go/constant"
	"go/token"
	"go/types"
	"strings"

	"golang.org/x/tools/go/ssa"
)

// Value is a symbolic Go value.
type Value struct {
	term  string
	typ   types.Type
	tuple []Value
	addr  *Addr
	clo   *cloInfo
	iter  *iterInfo
	// spec evaluation: reference to a struct embedded by value (loaded on use)
	embedded bool
}

type cloInfo struct {
	fn       *ssa.Function
	bindings []Value
}

type iterInfo struct {
	isString bool
	mapVal   Value  // the map being ranged
	ghost    string // ghost key of the visited set
	keySort  string
	str      string // string being ranged
	posGhost string
	cntGhost string // number of iterations performed so far (maps)
	lenStart string // length of the map when the range statement started
}

type pathStep struct {
	ss    *structSort // struct field projection
	field int
	index string // array index projection (when ss == nil)
	elemT types.Type
}

// Addr describes an lvalue: a cell of a heap array plus a projection path
// inside the cell's value.
type Addr struct {
	key  string
	idx  []string
	path []pathStep
	typ  types.Type
}

// Obligation is one proof goal: reach && !cond must be unsat.
type Obligation struct {
	Name   string
	Kind   string // nopanic / requires / ensures / invariant / frame / ...
	Func   string
	Pos    string
	reach  string
	cond   string
	NDecls int // number of declarations visible (prefix of q.decls)
	Expect string
	// model terms for replay, precomputed before the parallel solving phase
	replayTerms []modelTerm
	replayDone  bool
}

type Enc struct {
	// receive alternatives of the select whose sends are being recorded
	selActive, selNonBlocking bool
	selAlts                   []string
	lastResTypes              map[string]types.Type
	v    *Verifier
	q    *Query
	u    *Universe
	top  *ssa.Function
	obls []*Obligation
	// refs of non-escaping local allocations (preserved across havoc)
	localRefs []string
	depth     int
	oblCount  map[string]int
	inputs    []inputVar // for replay: parameters
	sweepOnly bool
	entry     *State
	contract  *Contract
	curFn     *ssa.Function
	assumed   []string // names of assumptions used (trusted models)
	pendingFI []pendingStore
	autoObls  []*Obligation
	curSig    *types.Signature
	unitFuns  map[string]bool
	frameAllowed map[string][]string // declared modifies targets (entry-state index terms) by heap key
	frameWhole   map[string]bool
	inferredFn   *ssa.Function
	noSide       bool // do not add field-invariant side facts to clauses (lemma units)
}

type pendingStore struct {
	addr *Addr
	fi   *FieldInv
}

// checkPendingFieldInvs: field invariants may be broken temporarily inside a
// function; they must hold again at calls and at return for every location
// this function has stored to.
func (e *Enc) checkPendingFieldInvs(st *State, pos token.Pos) {
	for _, ps := range e.pendingFI {
		cur := Value{term: e.loadAddr(st, ps.addr), typ: ps.addr.typ}
		t, _ := e.fieldInvTerm(st, ps.addr.key, cur)
		e.oblige(st, "fieldinv", ps.fi.Type+"."+ps.fi.Field, t, pos)
	}
	// re-established here; whoever changes the locations later (a callee, another
	// goroutine) has the same obligation in its own verification unit
	e.pendingFI = nil
}

type inputVar struct {
	name string
	val  Value
}

type retArm struct {
	cond string
	st   *State
	vals []Value
	pos  token.Pos
}

type frame struct {
	fn     *ssa.Function
	vals   map[ssa.Value]Value
	prefix string
	rets   []retArm
	// loop info
	loops   map[*ssa.BasicBlock]*loopInfo
	inEdges map[*ssa.BasicBlock][]edgeArm
	enc     *Enc
	inlined bool
	params  []Value
	entrySt *State
	con     *Contract
	// named locals (from DebugRef / phi comments) with their defining block
	namedDefs map[string][]namedDef
	named     map[string]Value // resolved view for the current block
	namedAddr map[string]Value
	curBlock  *ssa.BasicBlock
	envBlock  *ssa.BasicBlock
	loopSpecs map[*ssa.BasicBlock]*LoopSpec
	autoInvs  map[*ssa.BasicBlock][]autoInvRec
	preLoop   map[*ssa.BasicBlock]*State
	autoFrames map[*ssa.BasicBlock][]autoFrame
	localTypes map[string]types.Type
	lenient    map[string]Value
	curPos     token.Pos // source position of the site whose clause is being evaluated
	parent     *frame    // the frame into which this one is inlined (closures called in place)
}

type namedDef struct {
	blk    *ssa.BasicBlock
	val    Value
	isAddr bool
	seq    int
	obj    types.Object // the declared variable (nil when only the name is known)
}

type edgeArm struct {
	from *ssa.BasicBlock
	cond string
	st   *State
}

type loopInfo struct {
	head   *ssa.BasicBlock
	blocks map[*ssa.BasicBlock]bool
	backs  []*ssa.BasicBlock
}

func (e *Enc) pos(p token.Pos) string {
	if !p.IsValid() {
		return ""
	}
	pp := e.v.fset.Position(p)
	f := pp.Filename
	if i := strings.Index(f, "/repo/"); i >= 0 {
		f = f[i+6:]
	}
	return fmt.Sprintf("%s:%d", f, pp.Line)
}

// oblige records an obligation at the current state and then assumes it.
func (e *Enc) oblige(st *State, kind, label string, cond string, pos token.Pos) {
	if cond == "true" {
		return
	}
	if e.contract != nil && e.contract.Partial && !e.sweepOnly {
		switch kind {
		case "nopanic", "nohang", "pre", "typestate":
			// partial contract: run-time safety of this function is not
			// claimed here; the condition is assumed (listed in evidence)
			st.assume(cond)
			e.v.useTrusted("partial:" + e.contract.Key + ": run-time safety obligations (" + kind + ") of this function are assumed, not proved")
			return
		}
	}
	base := fmt.Sprintf("%s#%s[%s]", funcDisplayName(e.top), kind, label)
	e.oblCount[base]++
	name := base
	if n := e.oblCount[base]; n > 1 {
		name = fmt.Sprintf("%s~%d", base, n)
	}
	o := &Obligation{Name: name, Kind: kind, Func: funcDisplayName(e.top), Pos: e.pos(pos), reach: st.reach, cond: cond}
	e.obls = append(e.obls, o)
	st.assume(cond)
	o.NDecls = len(e.q.decls)
}

func funcDisplayName(fn *ssa.Function) string {
	s := fn.RelString(nil)
	s = strings.ReplaceAll(s, "github.com/gammazero/nexus/v3/", "")
	return s
}

// ---------------------------------------------------------------------------
// heap keys

func (e *Enc) fieldKey(structT types.Type, i int) string {
	st := structT.Underlying().(*types.Struct)
	key := fmt.Sprintf("F:%s:%d:%s", structKey(structT), i, st.Field(i).Name())
	if _, ok := e.q.heapSort[key]; !ok {
		ft := st.Field(i).Type()
		e.q.declareHeap(key, "(Array Int "+e.cellSort(ft)+")")
	}
	return key
}

// cellSort: sort of the stored content for a location of type t. Embedded
// struct fields are not stored (they live at pseudo-refs) - their cell holds
// nothing; arrays are stored as SMT arrays.
func (e *Enc) cellSort(t types.Type) string {
	return e.u.sortOf(t)
}

func (e *Enc) cellKey(t types.Type) string {
	key := "C:" + shortTypeName(t)
	if _, ok := e.q.heapSort[key]; !ok {
		e.q.declareHeap(key, "(Array Int "+e.u.sortOf(t)+")")
	}
	return key
}

func (e *Enc) elemKey(t types.Type) string {
	key := "E:" + shortTypeName(t)
	if _, ok := e.q.heapSort[key]; !ok {
		e.q.declareHeap(key, "(Array Int (Array Int "+e.u.sortOf(t)+"))")
	}
	return key
}

func mapTypeName(m *types.Map) string {
	return shortTypeName(m.Key()) + "__" + shortTypeName(m.Elem())
}

func (e *Enc) mapKeys(t types.Type) (dom, val, ln string) {
	m := t.Underlying().(*types.Map)
	n := mapTypeName(m)
	dom, val, ln = "MD:"+n, "MV:"+n, "ML:"+n
	if _, ok := e.q.heapSort[dom]; !ok {
		ks := e.u.sortOf(m.Key())
		vs := e.u.sortOf(m.Elem())
		e.q.declareHeap(dom, "(Array Int (Array "+ks+" Bool))")
		e.q.declareHeap(val, "(Array Int (Array "+ks+" "+vs+"))")
		e.q.declareHeap(ln, "(Array Int Int)")
	}
	return
}

// ---------------------------------------------------------------------------
// well-formedness of symbolic values (type invariants)

func (e *Enc) wf(st *State, t types.Type, term string) string {
	t = types.Unalias(t)
	switch x := t.Underlying().(type) {
	case *types.Basic:
		if x.Info()&types.IsInteger != 0 {
			return inRange(t, term)
		}
		if x.Kind() == types.UnsafePointer {
			return "(<= 0 " + term + ")"
		}
		if x.Info()&types.IsString != 0 {
			return "(<= (str.len " + term + ") 9223372036854775807)"
		}
		return "true"
	case *types.Pointer, *types.Map, *types.Chan, *types.Signature:
		return "(and (<= 0 " + term + ") (< " + term + " " + st.ap + "))"
	case *types.Slice:
		return e.wfSlice(st, term)
	case *types.Interface:
		return e.wfIface(st, term)
	case *types.Struct:
		ss := e.u.structSortOf(t)
		var cs []string
		for i := 0; i < x.NumFields(); i++ {
			cs = append(cs, e.wf(st, x.Field(i).Type(), "("+ss.fields[i]+" "+term+")"))
		}
		return and(cs...)
	}
	return "true"
}

func (e *Enc) wfSlice(st *State, s string) string {
	return fmt.Sprintf("(and (<= 0 (s_arr %[1]s)) (< (s_arr %[1]s) %[2]s) (<= 0 (s_off %[1]s)) (<= 0 (s_len %[1]s)) (<= (s_len %[1]s) (s_cap %[1]s)) (<= (s_cap %[1]s) 9223372036854775807) (=> (= (s_arr %[1]s) 0) (= %[1]s nil_slice)))", s, st.ap)
}

func (e *Enc) wfIface(st *State, x string) string {
	// nil interface is canonical; refs inside are allocated.
	return fmt.Sprintf("(and (<= 0 (itag %[1]s)) (=> (= (itag %[1]s) 0) (= %[1]s nil_iface)) (=> ((_ is VRef) (ival %[1]s)) (and (<= 0 (vref (ival %[1]s))) (< (vref (ival %[1]s)) %[2]s))) (=> ((_ is VSlice) (ival %[1]s)) (and (<= 0 (s_arr (vslice (ival %[1]s)))) (< (s_arr (vslice (ival %[1]s))) %[2]s) (<= 0 (s_len (vslice (ival %[1]s)))) (<= 0 (s_off (vslice (ival %[1]s)))) (<= (s_len (vslice (ival %[1]s))) (s_cap (vslice (ival %[1]s)))))) (iface_wf %[1]s))", x, st.ap)
}

// freshValue creates an unconstrained value of type t and assumes its type
// invariant.
func (e *Enc) freshValue(st *State, prefix string, t types.Type) Value {
	if tup, ok := t.(*types.Tuple); ok {
		v := Value{typ: t}
		for i := 0; i < tup.Len(); i++ {
			v.tuple = append(v.tuple, e.freshValue(st, fmt.Sprintf("%s_%d", prefix, i), tup.At(i).Type()))
		}
		return v
	}
	term := e.q.fresh(prefix, e.u.sortOf(t))
	st.assume(e.wf(st, t, term))
	return Value{term: term, typ: t}
}

// ---------------------------------------------------------------------------
// loads and stores

func (e *Enc) loadAddr(st *State, a *Addr) string {
	t := st.get(a.key)
	for _, i := range a.idx {
		t = sel(t, i)
	}
	for _, p := range a.path {
		if p.ss != nil {
			t = "(" + p.ss.fields[p.field] + " " + t + ")"
		} else {
			t = sel(t, p.index)
		}
	}
	return t
}

func (e *Enc) storeAddr(st *State, a *Addr, v string) {
	// compute new cell value through the path
	root := st.get(a.key)
	cells := []string{root}
	t := root
	for _, i := range a.idx {
		t = sel(t, i)
		cells = append(cells, t)
	}
	nv := e.updatePath(t, a.path, v)
	// rebuild index chain
	for k := len(a.idx) - 1; k >= 0; k-- {
		nv = store(cells[k], a.idx[k], nv)
	}
	st.set(a.key, nv)
}

func (e *Enc) updatePath(cur string, path []pathStep, v string) string {
	if len(path) == 0 {
		return v
	}
	p := path[0]
	if p.ss != nil {
		args := make([]string, len(p.ss.fields))
		for i := range args {
			proj := "(" + p.ss.fields[i] + " " + cur + ")"
			if i == p.field {
				args[i] = e.updatePath(proj, path[1:], v)
			} else {
				args[i] = proj
			}
		}
		return app("mk_"+p.ss.name, args...)
	}
	return store(cur, p.index, e.updatePath(sel(cur, p.index), path[1:], v))
}

// fieldRef is the pseudo-reference of an embedded (by value) struct field.
func (e *Enc) fieldRef(st *State, structT types.Type, i int, base string) string {
	fn := fmt.Sprintf("fa_%s_%d", structKey(structT), i)
	e.v.declFun(fn, "(Int) Int")
	e.v.declFun("inv_"+fn, "(Int) Int")
	e.v.declFun("broot", "(Int) Int")
	t := "(" + fn + " " + base + ")"
	// pseudo-refs are negative, injective, and remember the object they are
	// part of (instances of satisfiable axioms about uninterpreted functions)
	if !strings.Contains(base, "?") { // no bound variable inside
		e.q.axiom("(and (< " + t + " 0) (= (inv_" + fn + " " + t + ") " + base + ") (= (broot " + t + ") " + rootOf(base) + "))")
	}
	return t
}

// rootOf: the allocated object a (possibly pseudo-) reference belongs to.
func rootOf(r string) string {
	return "(ite (>= " + r + " 0) " + r + " (broot " + r + "))"
}

// ptrAddr returns the lvalue a pointer value designates.
func (e *Enc) ptrAddr(st *State, p Value) *Addr {
	if p.addr != nil {
		return p.addr
	}
	pt, ok := p.typ.Underlying().(*types.Pointer)
	if !ok {
		panic("ptrAddr on non-pointer " + p.typ.String())
	}
	et := pt.Elem()
	if _, isArr := et.Underlying().(*types.Array); isArr {
		// pointer to array: the array lives in the element heap at this ref
		return nil
	}
	return &Addr{key: e.cellKey(et), idx: []string{p.term}, typ: et}
}

// loadValue loads a value of type t located at pointer p.
func (e *Enc) loadPtr(st *State, p Value, pos token.Pos) Value {
	pt := p.typ.Underlying().(*types.Pointer)
	et := pt.Elem()
	if p.addr != nil {
		return Value{term: e.loadAddr(st, p.addr), typ: et}
	}
	switch x := et.Underlying().(type) {
	case *types.Struct:
		return Value{term: e.loadStruct(st, et, p.term), typ: et}
	case *types.Array:
		ek := e.elemKey(x.Elem())
		return Value{term: sel(st.get(ek), p.term), typ: et}
	}
	return Value{term: sel(st.get(e.cellKey(et)), p.term), typ: et}
}

func (e *Enc) loadStruct(st *State, t types.Type, ref string) string {
	s := t.Underlying().(*types.Struct)
	ss := e.u.structSortOf(t)
	args := make([]string, s.NumFields())
	for i := range args {
		ft := s.Field(i).Type()
		if _, isStruct := ft.Underlying().(*types.Struct); isStruct {
			args[i] = e.loadStruct(st, ft, e.fieldRef(st, t, i, ref))
		} else {
			args[i] = sel(st.get(e.fieldKey(t, i)), ref)
		}
	}
	return app("mk_"+ss.name, args...)
}

func (e *Enc) storeStruct(st *State, t types.Type, ref string, val string) {
	s := t.Underlying().(*types.Struct)
	ss := e.u.structSortOf(t)
	for i := 0; i < s.NumFields(); i++ {
		ft := s.Field(i).Type()
		proj := "(" + ss.fields[i] + " " + val + ")"
		if _, isStruct := ft.Underlying().(*types.Struct); isStruct {
			e.storeStruct(st, ft, e.fieldRef(st, t, i, ref), proj)
		} else {
			k := e.fieldKey(t, i)
			st.set(k, store(st.get(k), ref, proj))
		}
	}
}

func (e *Enc) storePtr(st *State, p Value, v Value, pos token.Pos) {
	pt := p.typ.Underlying().(*types.Pointer)
	et := pt.Elem()
	if p.addr != nil {
		e.storeAddr(st, p.addr, v.term)
		return
	}
	switch x := et.Underlying().(type) {
	case *types.Struct:
		e.storeStruct(st, et, p.term, v.term)
		return
	case *types.Array:
		ek := e.elemKey(x.Elem())
		st.set(ek, store(st.get(ek), p.term, v.term))
		return
	}
	k := e.cellKey(et)
	st.set(k, store(st.get(k), p.term, v.term))
}

// ---------------------------------------------------------------------------
// running a function body

func (e *Enc) newFrame(fn *ssa.Function, prefix string) *frame {
	fr := &frame{fn: fn, vals: map[ssa.Value]Value{}, prefix: prefix, enc: e, inEdges: map[*ssa.BasicBlock][]edgeArm{},
		namedDefs: map[string][]namedDef{}, autoInvs: map[*ssa.BasicBlock][]autoInvRec{}, preLoop: map[*ssa.BasicBlock]*State{}, autoFrames: map[*ssa.BasicBlock][]autoFrame{}}
	fr.loops = findLoops(fn)
	return fr
}

func findLoops(fn *ssa.Function) map[*ssa.BasicBlock]*loopInfo {
	loops := map[*ssa.BasicBlock]*loopInfo{}
	for _, b := range fn.Blocks {
		for _, s := range b.Succs {
			if s.Dominates(b) {
				li := loops[s]
				if li == nil {
					li = &loopInfo{head: s, blocks: map[*ssa.BasicBlock]bool{s: true}}
					loops[s] = li
				}
				li.backs = append(li.backs, b)
				// collect natural loop body
				var stack []*ssa.BasicBlock
				if !li.blocks[b] {
					li.blocks[b] = true
					stack = append(stack, b)
				}
				for len(stack) > 0 {
					x := stack[len(stack)-1]
					stack = stack[:len(stack)-1]
					for _, p := range x.Preds {
						if !li.blocks[p] {
							li.blocks[p] = true
							stack = append(stack, p)
						}
					}
				}
			}
		}
	}
	return loops
}

// topoOrder returns blocks reachable from entry in an order where every
// forward predecessor precedes its successor.
func topoOrder(fn *ssa.Function) []*ssa.BasicBlock {
	visited := map[*ssa.BasicBlock]bool{}
	var post []*ssa.BasicBlock
	var dfs func(b *ssa.BasicBlock)
	dfs = func(b *ssa.BasicBlock) {
		visited[b] = true
		for _, s := range b.Succs {
			if s.Dominates(b) { // back edge
				continue
			}
			if !visited[s] {
				dfs(s)
			}
		}
		post = append(post, b)
	}
	if len(fn.Blocks) > 0 {
		dfs(fn.Blocks[0])
	}
	for i, j := 0, len(post)-1; i < j; i, j = i+1, j-1 {
		post[i], post[j] = post[j], post[i]
	}
	return post
}

// val returns the symbolic value of an SSA operand.
func (fr *frame) val(st *State, v ssa.Value) Value {
	e := fr.enc
	switch x := v.(type) {
	case *ssa.Const:
		return e.constValue(x)
	case *ssa.Function:
		return Value{term: e.funcRef(x), typ: x.Type(), clo: &cloInfo{fn: x}}
	case *ssa.Global:
		return Value{term: e.globalRef(x), typ: x.Type()}
	case *ssa.Builtin:
		return Value{term: "0", typ: x.Type()}
	}
	if val, ok := fr.vals[v]; ok {
		return val
	}
	panic(fmt.Sprintf("no value for %s (%T) in %s", v.Name(), v, fr.fn.Name()))
}

func (e *Enc) constValue(c *ssa.Const) Value {
	t := c.Type()
	if c.Value == nil {
		return Value{term: e.u.zero(t), typ: t}
	}
	return Value{term: e.u.constTerm(t, c.Value), typ: t}
}

func (e *Enc) funcRef(fn *ssa.Function) string {
	name := "fn_" + sanitize(fn.String())
	e.v.declFun(name, "() Int")
	e.v.funcRefs[name] = true
	return name
}

func (e *Enc) globalRef(g *ssa.Global) string {
	name := "glob_" + sanitize(g.String())
	e.v.declFun(name, "() Int")
	e.v.globalRefs[name] = true
	return name
}

// runBody symbolically executes fn from state st with the given parameter
// and free-variable values; returns the merged exit state and results.
func (e *Enc) runBody(fr *frame, st *State) (*State, []Value) {
	fn := fr.fn
	order := topoOrder(fn)
	if len(order) == 0 {
		return st, nil
	}
	fr.inEdges[order[0]] = []edgeArm{{from: nil, cond: st.reach, st: st}}
	for _, b := range order {
		arms := fr.inEdges[b]
		if len(arms) == 0 {
			continue
		}
		e.runBlock(fr, b, arms)
	}
	// merge returns
	if len(fr.rets) == 0 {
		dead := st.clone()
		dead.reach = "false"
		return dead, e.deadResults(dead, fn)
	}
	marms := make([]mergeArm, len(fr.rets))
	for i, r := range fr.rets {
		marms[i] = mergeArm{cond: r.cond, st: r.st}
	}
	out := mergeStates(e.q, marms)
	nres := fn.Signature.Results().Len()
	res := make([]Value, nres)
	for i := 0; i < nres; i++ {
		rt := fn.Signature.Results().At(i).Type()
		terms := make([]string, len(fr.rets))
		same := true
		for j, r := range fr.rets {
			terms[j] = r.vals[i].term
			if terms[j] != terms[0] {
				same = false
			}
		}
		var term string
		if same {
			term = terms[0]
		} else {
			term = terms[len(terms)-1]
			for j := len(terms) - 2; j >= 0; j-- {
				term = ite(fr.rets[j].cond, terms[j], term)
			}
			term = e.q.define(fr.prefix+"ret", e.u.sortOf(rt), term)
		}
		res[i] = Value{term: term, typ: rt}
	}
	return out, res
}

func (e *Enc) deadResults(st *State, fn *ssa.Function) []Value {
	var res []Value
	for i := 0; i < fn.Signature.Results().Len(); i++ {
		t := fn.Signature.Results().At(i).Type()
		res = append(res, Value{term: e.u.zero(t), typ: t})
	}
	return res
}

func (e *Enc) runBlock(fr *frame, b *ssa.BasicBlock, arms []edgeArm) {
	marms := make([]mergeArm, len(arms))
	for i, a := range arms {
		marms[i] = mergeArm{cond: a.cond, st: a.st}
	}
	st := mergeStates(e.q, marms)
	li := fr.loops[b]
	// phis
	nphi := 0
	for _, ins := range b.Instrs {
		phi, ok := ins.(*ssa.Phi)
		if !ok {
			break
		}
		nphi++
		// value per incoming forward arm
		terms := make([]Value, len(arms))
		for i, a := range arms {
			idx := predIndex(b, a.from)
			terms[i] = fr.val(a.st, phi.Edges[idx])
		}
		fr.vals[phi] = e.mergeValues(fr.prefix+phi.Name(), phi.Type(), marms, terms)
		if phi.Comment != "" && !strings.HasPrefix(phi.Comment, "range") {
			fr.recordNamed(phi.Comment, b, fr.vals[phi], false)
		}
	}
	fr.curBlock = b
	if li != nil {
		e.loopHead(fr, b, li, st, nphi)
	}
	for _, ins := range b.Instrs[nphi:] {
		e.instr(fr, st, ins)
	}
}

func (fr *frame) recordNamed(name string, blk *ssa.BasicBlock, v Value, isAddr bool) {
	fr.recordNamedObj(name, blk, v, isAddr, nil)
}

func (fr *frame) recordNamedObj(name string, blk *ssa.BasicBlock, v Value, isAddr bool, obj types.Object) {
	ds := fr.namedDefs[name]
	fr.namedDefs[name] = append(ds, namedDef{blk: blk, val: v, isAddr: isAddr, seq: len(ds), obj: obj})
}

// visibleObject: the variable a name denotes at a source position (lexical
// scoping: shadowed declarations and the per-clause variables of a type
// switch are told apart).
func (fr *frame) visibleObject(name string, pos token.Pos) types.Object {
	if !pos.IsValid() || fr.fn.Pkg == nil {
		return nil
	}
	root := fr.fn
	for root.Parent() != nil {
		root = root.Parent()
	}
	if root.Pkg == nil {
		return nil
	}
	sc := root.Pkg.Pkg.Scope().Innermost(pos)
	if sc == nil {
		return nil
	}
	_, obj := sc.LookupParent(name, pos)
	if v, ok := obj.(*types.Var); ok && !v.IsField() {
		return v
	}
	return nil
}

// resolveNamed finds the definition of a source variable that is valid at
// block c: the most recent recorded definition whose block dominates c. A
// later definition in a dominated block that does not dominate c makes the
// name ambiguous (ok=false, ambiguous=true).
func (fr *frame) resolveNamed(name string, c *ssa.BasicBlock) (d namedDef, ok, ambiguous bool) {
	ds := fr.namedDefs[name]
	if obj := fr.visibleObject(name, fr.curPos); obj != nil {
		// keep the definitions of the variable that is in scope at the
		// current source position (definitions known by name only are kept
		// when their type fits)
		var keep []namedDef
		for _, d := range ds {
			if d.obj == obj {
				keep = append(keep, d)
				continue
			}
			if d.obj == nil {
				t := d.val.typ
				if d.isAddr {
					if pt, isPtr := t.Underlying().(*types.Pointer); isPtr {
						t = pt.Elem()
					}
				}
				if t != nil && types.Identical(t, obj.Type()) {
					keep = append(keep, d)
				}
			}
		}
		dominating := false
		for _, d := range keep {
			if d.blk.Dominates(c) {
				dominating = true
			}
		}
		if !dominating {
			keep = nil
			// a type-switch clause variable that is not used on the way here:
			// it denotes the switched interface value, which is what the
			// enclosing declaration of the same name holds
			for _, d := range ds {
				if d.obj != nil && d.obj != obj && d.obj.Pos() < obj.Pos() {
					if _, isIface := d.obj.Type().Underlying().(*types.Interface); isIface {
						keep = append(keep, d)
					}
				}
			}
			var objs = map[types.Object]bool{}
			for _, d := range keep {
				objs[d.obj] = true
			}
			if len(objs) == 1 {
				for _, d := range ds {
					if d.obj == nil {
						t := d.val.typ
						if d.isAddr {
							if pt, isPtr := t.Underlying().(*types.Pointer); isPtr {
								t = pt.Elem()
							}
						}
						for o := range objs {
							if t != nil && types.Identical(t, o.Type()) {
								keep = append(keep, d)
							}
						}
					}
				}
				// restore recording order
				sort.Slice(keep, func(i, j int) bool { return keep[i].seq < keep[j].seq })
			} else {
				keep = nil
			}
		}
		ds = keep
	}
	// a variable that lives in a memory cell is read from the cell
	for i := len(ds) - 1; i >= 0; i-- {
		if ds[i].isAddr && ds[i].blk.Dominates(c) {
			return ds[i], true, false
		}
	}
	idx := -1
	for i := len(ds) - 1; i >= 0; i-- {
		if ds[i].blk.Dominates(c) {
			idx = i
			break
		}
	}
	if idx < 0 {
		return namedDef{}, false, false
	}
	for i := idx + 1; i < len(ds); i++ {
		if !ds[i].blk.Dominates(c) && ds[idx].blk.Dominates(ds[i].blk) && ds[i].val.term != ds[idx].val.term {
			return ds[idx], false, true
		}
	}
	return ds[idx], true, false
}

func predIndex(b, from *ssa.BasicBlock) int {
	for i, p := range b.Preds {
		if p == from {
			return i
		}
	}
	panic("pred not found")
}

func (e *Enc) mergeValues(prefix string, t types.Type, arms []mergeArm, vals []Value) Value {
	same := true
	for i := range vals {
		if vals[i].term != vals[0].term {
			same = false
		}
	}
	if same {
		v := vals[0]
		v.typ = t
		return v
	}
	if _, isTuple := t.(*types.Tuple); isTuple {
		panic("phi of tuple")
	}
	term := vals[len(vals)-1].term
	for i := len(vals) - 2; i >= 0; i-- {
		term = ite(arms[i].cond, vals[i].term, term)
	}
	out := Value{term: e.q.define(prefix, e.u.sortOf(t), term), typ: t}
	// keep closure knowledge if all arms agree
	if vals[0].clo != nil {
		agree := true
		for _, v := range vals {
			if v.clo == nil || v.clo.fn != vals[0].clo.fn {
				agree = false
			}
		}
		if agree && len(vals[0].clo.bindings) == 0 {
			out.clo = vals[0].clo
		}
	}
	return out
}

// addEdge records the state flowing along the edge from->to. Back edges
// assert the loop invariant instead.
func (e *Enc) addEdge(fr *frame, from, to *ssa.BasicBlock, st *State, cond string) {
	full := and(st.reach, cond)
	if to.Dominates(from) {
		if li := fr.loops[to]; li != nil {
			bst := st.clone()
			bst.reach = e.q.define("r", sortBool, full)
			e.loopBack(fr, to, li, from, bst)
			return
		}
	}
	fr.inEdges[to] = append(fr.inEdges[to], edgeArm{from: from, cond: full, st: st})
}

// ---------------------------------------------------------------------------
// instructions

func (e *Enc) instr(fr *frame, st *State, ins ssa.Instruction) {
	defer func() {
		if r := recover(); r != nil {
			if _, ok := r.(unsupported); ok {
				panic(r)
			}
			panic(fmt.Sprintf("%v\n  while encoding %s: %s at %s", r, fr.fn.Name(), ins.String(), e.pos(ins.Pos())))
		}
	}()
	switch x := ins.(type) {
	case *ssa.DebugRef:
		if obj := x.Object(); obj != nil {
			if _, isVar := obj.(*types.Var); isVar {
				fr.recordNamedObj(obj.Name(), ins.Block(), fr.val(st, x.X), x.IsAddr, obj)
			}
		}
	case *ssa.BinOp:
		fr.vals[x] = e.binop(fr, st, x)
	case *ssa.UnOp:
		fr.vals[x] = e.unop(fr, st, x)
	case *ssa.ChangeType:
		v := fr.val(st, x.X)
		v.typ = x.Type()
		fr.vals[x] = v
	case *ssa.Convert:
		fr.vals[x] = e.convert(fr, st, x)
	case *ssa.MultiConvert:
		fr.vals[x] = e.freshValue(st, fr.prefix+x.Name(), x.Type())
	case *ssa.ChangeInterface:
		v := fr.val(st, x.X)
		v.typ = x.Type()
		fr.vals[x] = v
	case *ssa.MakeInterface:
		v := fr.val(st, x.X)
		fr.vals[x] = e.makeIface(st, v, x.Type())
	case *ssa.TypeAssert:
		fr.vals[x] = e.typeAssert(fr, st, x)
	case *ssa.Extract:
		t := fr.val(st, x.Tuple)
		fr.vals[x] = t.tuple[x.Index]
	case *ssa.Alloc:
		fr.vals[x] = e.alloc(fr, st, x)
	case *ssa.Store:
		p := fr.val(st, x.Addr)
		v := fr.val(st, x.Val)
		e.checkNonNilPtr(st, p, x.Pos(), "store")
		if p.addr != nil && len(p.addr.path) == 0 && e.v.sliceNormKeys[p.addr.key] && !e.q.isOff0(v.term) {
			e.oblige(st, "fieldinv", "slice-offset-0 "+p.addr.key, "(= (s_off "+v.term+") 0)", x.Pos())
		}
		if p.addr != nil && len(p.addr.path) == 0 {
			if fi := e.v.fieldInvs[p.addr.key]; fi != nil {
				e.pendingFI = append(e.pendingFI, pendingStore{addr: p.addr, fi: fi})
			}
		}
		e.storePtr(st, p, v, x.Pos())
	case *ssa.FieldAddr:
		fr.vals[x] = e.fieldAddr(fr, st, x)
	case *ssa.Field:
		v := fr.val(st, x.X)
		ss := e.u.structSortOf(x.X.Type())
		fr.vals[x] = Value{term: "(" + ss.fields[x.Field] + " " + v.term + ")", typ: x.Type()}
	case *ssa.IndexAddr:
		fr.vals[x] = e.indexAddr(fr, st, x)
	case *ssa.Index:
		fr.vals[x] = e.index(fr, st, x)
	case *ssa.Slice:
		fr.vals[x] = e.sliceOp(fr, st, x)
	case *ssa.Lookup:
		fr.vals[x] = e.lookup(fr, st, x)
	case *ssa.MapUpdate:
		e.mapUpdate(fr, st, x)
	case *ssa.MakeMap:
		fr.vals[x] = e.makeMap(fr, st, x)
	case *ssa.MakeSlice:
		fr.vals[x] = e.makeSlice(fr, st, x)
	case *ssa.MakeChan:
		fr.vals[x] = e.makeChan(fr, st, x)
	case *ssa.MakeClosure:
		fr.vals[x] = e.makeClosure(fr, st, x)
	case *ssa.Range:
		fr.vals[x] = e.rangeInit(fr, st, x)
	case *ssa.Next:
		fr.vals[x] = e.rangeNext(fr, st, x)
	case *ssa.Call:
		fr.vals[x] = e.call(fr, st, x.Common(), x, x.Pos())
	case *ssa.Defer:
		e.deferInstr(fr, st, x)
	case *ssa.RunDefers:
		e.runDefers(fr, st, x)
	case *ssa.Go:
		e.goInstr(fr, st, x)
	case *ssa.Send:
		e.send(fr, st, x)
	case *ssa.Select:
		fr.vals[x] = e.selectInstr(fr, st, x)
	case *ssa.Panic:
		e.panicInstr(fr, st, x)
	case *ssa.If:
		c := fr.val(st, x.Cond)
		b := x.Block()
		e.addEdge(fr, b, b.Succs[0], st, c.term)
		e.addEdge(fr, b, b.Succs[1], st, not(c.term))
	case *ssa.Jump:
		b := x.Block()
		e.addEdge(fr, b, b.Succs[0], st, "true")
	case *ssa.Return:
		if !fr.inlined {
			e.checkPendingFieldInvs(st, x.Pos())
		}
		vals := make([]Value, len(x.Results))
		for i, r := range x.Results {
			vals[i] = fr.val(st, r)
		}
		if !fr.inlined && fr.con != nil && len(fr.con.ReturnSites) > 0 && fr.fn == e.top {
			e.returnSiteChecks(fr, st, vals, x.Pos())
		}
		fr.rets = append(fr.rets, retArm{cond: st.reach, st: st, vals: vals, pos: x.Pos()})
	case *ssa.SliceToArrayPointer:
		fr.vals[x] = e.freshValue(st, fr.prefix+x.Name(), x.Type())
		e.q.note("unsupported: SliceToArrayPointer in %s", fr.fn.Name())
	default:
		panic(fmt.Sprintf("unsupported instruction %T", ins))
	}
}

type unsupported struct{ msg string }

func (e *Enc) checkNonNilPtr(st *State, p Value, pos token.Pos, what string) {
	if p.addr != nil {
		return
	}
	e.oblige(st, "nopanic", "nil-deref "+what, "(not (= "+p.term+" 0))", pos)
}

func (e *Enc) alloc(fr *frame, st *State, x *ssa.Alloc) Value {
	pt := x.Type().Underlying().(*types.Pointer)
	ref := e.q.define(fr.prefix+x.Name()+"_ref", sortInt, st.ap)
	st.ap = e.q.define("ap", sortInt, "(+ "+st.ap+" 1)")
	st.assume("(> " + ref + " 0)")
	v := Value{term: ref, typ: x.Type()}
	e.zeroInit(st, pt.Elem(), ref)
	if !x.Heap || capturedReadOnly(x) {
		e.localRefs = append(e.localRefs, ref)
	}
	if x.Comment != "" && !strings.Contains(x.Comment, " ") && x.Comment != "varargs" && x.Comment != "complit" && x.Comment != "new" && x.Comment != "slicelit" && x.Comment != "makeslice" {
		fr.recordNamed(x.Comment, x.Block(), v, true)
	}
	return v
}

func (e *Enc) zeroInit(st *State, t types.Type, ref string) {
	switch x := t.Underlying().(type) {
	case *types.Struct:
		for i := 0; i < x.NumFields(); i++ {
			ft := x.Field(i).Type()
			if _, isStruct := ft.Underlying().(*types.Struct); isStruct {
				e.zeroInit(st, ft, e.fieldRef(st, t, i, ref))
			} else {
				k := e.fieldKey(t, i)
				st.set(k, store(st.get(k), ref, e.u.zero(ft)))
			}
		}
	case *types.Array:
		ek := e.elemKey(x.Elem())
		st.set(ek, store(st.get(ek), ref, "((as const (Array Int "+e.u.sortOf(x.Elem())+")) "+e.u.zero(x.Elem())+")"))
	default:
		k := e.cellKey(t)
		st.set(k, store(st.get(k), ref, e.u.zero(t)))
	}
}

func (e *Enc) fieldAddr(fr *frame, st *State, x *ssa.FieldAddr) Value {
	p := fr.val(st, x.X)
	structT := x.X.Type().Underlying().(*types.Pointer).Elem()
	s := structT.Underlying().(*types.Struct)
	ft := s.Field(x.Field).Type()
	if p.addr != nil {
		// pointer into a value cell (e.g. element of []struct): extend path
		a := *p.addr
		a.path = append(append([]pathStep{}, a.path...), pathStep{ss: e.u.structSortOf(structT), field: x.Field})
		a.typ = ft
		return Value{term: "0", typ: x.Type(), addr: &a}
	}
	e.checkNonNilPtr(st, p, x.Pos(), "field "+s.Field(x.Field).Name())
	if _, isStruct := ft.Underlying().(*types.Struct); isStruct {
		return Value{term: e.fieldRef(st, structT, x.Field, p.term), typ: x.Type()}
	}
	if at, isArr := ft.Underlying().(*types.Array); isArr {
		// array field: lives in element heap at a pseudo-ref
		_ = at
		return Value{term: e.fieldRef(st, structT, x.Field, p.term), typ: x.Type()}
	}
	return Value{term: "0", typ: x.Type(), addr: &Addr{key: e.fieldKey(structT, x.Field), idx: []string{p.term}, typ: ft}}
}

func (e *Enc) indexAddr(fr *frame, st *State, x *ssa.IndexAddr) Value {
	base := fr.val(st, x.X)
	idx := fr.val(st, x.Index)
	switch bt := x.X.Type().Underlying().(type) {
	case *types.Slice:
		e.oblige(st, "nopanic", "index", "(and (<= 0 "+idx.term+") (< "+idx.term+" (s_len "+base.term+")))", x.Pos())
		et := bt.Elem()
		return Value{term: "0", typ: x.Type(), addr: &Addr{key: e.elemKey(et), idx: []string{"(s_arr " + base.term + ")", e.q.idxOf(base.term, idx.term)}, typ: et}}
	case *types.Pointer: // pointer to array
		at := bt.Elem().Underlying().(*types.Array)
		e.oblige(st, "nopanic", "index", fmt.Sprintf("(and (<= 0 %s) (< %s %d))", idx.term, idx.term, at.Len()), x.Pos())
		if base.addr != nil {
			a := *base.addr
			a.path = append(append([]pathStep{}, a.path...), pathStep{index: idx.term, elemT: at.Elem()})
			a.typ = at.Elem()
			return Value{term: "0", typ: x.Type(), addr: &a}
		}
		e.checkNonNilPtr(st, base, x.Pos(), "array index")
		return Value{term: "0", typ: x.Type(), addr: &Addr{key: e.elemKey(at.Elem()), idx: []string{base.term, idx.term}, typ: at.Elem()}}
	}
	panic("indexAddr on " + x.X.Type().String())
}

func (e *Enc) index(fr *frame, st *State, x *ssa.Index) Value {
	base := fr.val(st, x.X)
	idx := fr.val(st, x.Index)
	switch bt := x.X.Type().Underlying().(type) {
	case *types.Array:
		e.oblige(st, "nopanic", "index", fmt.Sprintf("(and (<= 0 %s) (< %s %d))", idx.term, idx.term, bt.Len()), x.Pos())
		return Value{term: sel(base.term, idx.term), typ: x.Type()}
	case *types.Basic: // string
		e.oblige(st, "nopanic", "index", "(and (<= 0 "+idx.term+") (< "+idx.term+" (str.len "+base.term+")))", x.Pos())
		return Value{term: "(str.to_code (str.at " + base.term + " " + idx.term + "))", typ: x.Type()}
	case *types.Slice:
		e.oblige(st, "nopanic", "index", "(and (<= 0 "+idx.term+") (< "+idx.term+" (s_len "+base.term+")))", x.Pos())
		ek := e.elemKey(bt.Elem())
		return Value{term: sel(sel(st.get(ek), "(s_arr "+base.term+")"), e.q.idxOf(base.term, idx.term)), typ: x.Type()}
	}
	panic("index on " + x.X.Type().String())
}

func (e *Enc) makeIface(st *State, v Value, it types.Type) Value {
	if _, isIface := v.typ.Underlying().(*types.Interface); isIface {
		v.typ = it
		return v
	}
	term := e.u.mkIface(v.typ, e.materialize(st, v))
	// unboxing axiom for boxed structs
	if c, _ := e.u.valCtor(v.typ); c == "VBox" {
		so := e.u.sortOf(v.typ)
		st.assume("(= (un" + e.u.boxFun(so) + " (" + e.u.boxFun(so) + " " + v.term + ")) " + v.term + ")")
	}
	e.v.noteImpl(v.typ)
	return Value{term: term, typ: it}
}

// materialize turns a value into a plain SMT term (lvalue descriptors are
// lost; escaping field addresses are flagged).
func (e *Enc) materialize(st *State, v Value) string {
	if v.addr != nil {
		e.q.note("abstraction: address of a value cell escapes (%s); writes through it are not tracked", v.addr.key)
		e.v.escapedAddr = true
		return e.q.fresh("escaped_addr", sortInt)
	}
	return v.term
}

func (e *Enc) typeAssert(fr *frame, st *State, x *ssa.TypeAssert) Value {
	v := fr.val(st, x.X)
	at := x.AssertedType
	var okTerm, valTerm string
	if _, isIface := at.Underlying().(*types.Interface); isIface {
		okTerm = e.implementsTerm(st, v.term, at)
		valTerm = v.term
	} else {
		tag := e.u.tagOf(at)
		okTerm = fmt.Sprintf("(= (itag %s) %d)", v.term, tag)
		valTerm = e.u.unbox(at, "(ival "+v.term+")")
	}
	if x.CommaOk {
		ok := e.q.define(fr.prefix+x.Name()+"_ok", sortBool, okTerm)
		val := e.q.define(fr.prefix+x.Name()+"_v", e.u.sortOf(at), ite(ok, valTerm, e.u.zero(at)))
		if _, isIface := at.Underlying().(*types.Interface); !isIface {
			st.assume(implies(ok, e.wf(st, at, val)))
		}
		return Value{typ: x.Type(), tuple: []Value{{term: val, typ: at}, {term: ok, typ: types.Typ[types.Bool]}}}
	}
	e.oblige(st, "nopanic", "typeassert "+shortTypeName(at), okTerm, x.Pos())
	val := e.q.define(fr.prefix+x.Name(), e.u.sortOf(at), valTerm)
	if _, isIface := at.Underlying().(*types.Interface); !isIface {
		st.assume(e.wf(st, at, val))
	}
	return Value{term: val, typ: at}
}

// implementsTerm: does the dynamic type of iface value x implement interface it?
func (e *Enc) implementsTerm(st *State, x string, it types.Type) string {
	iface := it.Underlying().(*types.Interface)
	if iface.NumMethods() == 0 {
		return "(not (= (itag " + x + ") 0))"
	}
	name := "impl_" + sanitize(typeKey(it))
	e.v.declFun(name, "(Int) Bool")
	e.v.implFuns[name] = it
	return "(and (not (= (itag " + x + ") 0)) (" + name + " (itag " + x + ")))"
}

func (e *Enc) binop(fr *frame, st *State, x *ssa.BinOp) Value {
	a := fr.val(st, x.X)
	b := fr.val(st, x.Y)
	t := x.Type()
	ot := x.X.Type()
	so := e.u.sortOf(ot)
	switch x.Op {
	case token.EQL, token.NEQ:
		var c string
		if _, isIface := ot.Underlying().(*types.Interface); isIface {
			bt := b
			at := a
			// comparing interface with concrete value is already boxed by SSA
			c = eq(at.term, bt.term)
		} else if a.addr != nil || b.addr != nil {
			c = e.q.fresh("addrcmp", sortBool)
		} else {
			c = eq(a.term, b.term)
		}
		if x.Op == token.NEQ {
			c = not(c)
		}
		return Value{term: e.q.define(fr.prefix+x.Name(), sortBool, c), typ: t}
	case token.LSS, token.LEQ, token.GTR, token.GEQ:
		var c string
		switch so {
		case sortInt:
			op := map[token.Token]string{token.LSS: "<", token.LEQ: "<=", token.GTR: ">", token.GEQ: ">="}[x.Op]
			c = "(" + op + " " + a.term + " " + b.term + ")"
		case sortString:
			switch x.Op {
			case token.LSS:
				c = "(str.< " + a.term + " " + b.term + ")"
			case token.LEQ:
				c = "(str.<= " + a.term + " " + b.term + ")"
			case token.GTR:
				c = "(str.< " + b.term + " " + a.term + ")"
			case token.GEQ:
				c = "(str.<= " + b.term + " " + a.term + ")"
			}
		case sortFlt:
			switch x.Op {
			case token.LSS:
				c = "(flt_lt " + a.term + " " + b.term + ")"
			case token.GTR:
				c = "(flt_lt " + b.term + " " + a.term + ")"
			case token.LEQ:
				c = "(or (flt_lt " + a.term + " " + b.term + ") (= " + a.term + " " + b.term + "))"
			case token.GEQ:
				c = "(or (flt_lt " + b.term + " " + a.term + ") (= " + a.term + " " + b.term + "))"
			}
		default:
			c = e.q.fresh("cmp", sortBool)
		}
		return Value{term: e.q.define(fr.prefix+x.Name(), sortBool, c), typ: t}
	}
	switch so {
	case sortBool:
		switch x.Op {
		case token.AND, token.LAND:
			return Value{term: and(a.term, b.term), typ: t}
		case token.OR, token.LOR:
			return Value{term: or(a.term, b.term), typ: t}
		}
	case sortString:
		if x.Op == token.ADD {
			return Value{term: e.q.define(fr.prefix+x.Name(), sortString, "(str.++ "+a.term+" "+b.term+")"), typ: t}
		}
	case sortFlt:
		return Value{term: e.q.define(fr.prefix+x.Name(), sortFlt, fmt.Sprintf("(flt_op %d %s %s)", int(x.Op), a.term, b.term)), typ: t}
	case sortInt:
		return Value{term: e.q.define(fr.prefix+x.Name(), sortInt, e.intOp(st, x.Op, t, a, b, x.Pos(), x.Y)), typ: t}
	}
	panic("binop " + x.Op.String() + " on " + ot.String())
}

func pow2(n int64) string {
	return new(bigInt).Lsh(bigOne, uint(n)).String()
}

func (e *Enc) intOp(st *State, op token.Token, t types.Type, a, b Value, pos token.Pos, yv ssa.Value) string {
	switch op {
	case token.ADD:
		return wrapInt(t, "(+ "+a.term+" "+b.term+")")
	case token.SUB:
		return wrapInt(t, "(- "+a.term+" "+b.term+")")
	case token.MUL:
		return wrapInt(t, "(* "+a.term+" "+b.term+")")
	case token.QUO:
		e.oblige(st, "nopanic", "div-by-zero", "(not (= "+b.term+" 0))", pos)
		// Go truncates toward zero
		q := fmt.Sprintf("(ite (>= %[1]s 0) (div %[1]s %[2]s) (- (div (- %[1]s) %[2]s)))", a.term, b.term)
		return wrapInt(t, q)
	case token.REM:
		e.oblige(st, "nopanic", "div-by-zero", "(not (= "+b.term+" 0))", pos)
		return fmt.Sprintf("(ite (>= %[1]s 0) (mod %[1]s %[2]s) (- (mod (- %[1]s) %[2]s)))", a.term, b.term)
	case token.SHL, token.SHR, token.AND, token.OR, token.XOR, token.AND_NOT:
		if c, ok := yv.(*ssa.Const); ok && c.Value != nil && c.Value.Kind() == constant.Int && op == token.AND {
			if n, exact := constant.Int64Val(c.Value); exact && n > 0 {
				// mask of form 2^k-1: the low k bits, i.e. the value modulo 2^k
				// (also for negative operands in two's complement)
				if k, isMask := maskBits(n); isMask {
					return "(mod " + a.term + " " + pow2(k) + ")"
				}
			}
		}
		if c, ok := yv.(*ssa.Const); ok && c.Value != nil && c.Value.Kind() == constant.Int {
			if n, exact := constant.Int64Val(c.Value); exact && n >= 0 && n < 64 {
				lo, _, _ := intRange(t)
				unsigned := lo != nil && lo.Sign() == 0
				switch op {
				case token.SHL:
					return wrapInt(t, "(* "+a.term+" "+pow2(n)+")")
				case token.SHR:
					return "(div " + a.term + " " + pow2(n) + ")"
				case token.AND:
					// mask of form 2^k-1: the low k bits, i.e. the value modulo 2^k
					// (also for negative operands in two's complement)
					if k, isMask := maskBits(n); isMask {
						_ = unsigned
						return "(mod " + a.term + " " + pow2(k) + ")"
					}
				}
			}
		}
		// shift by a variable amount: x << s = x * 2^s (wrapped), x >> s = x div 2^s,
		// with 2^s given by a case distinction over 0..63 (0 beyond the width for <<)
		if (op == token.SHL || op == token.SHR) && e.u.sortOf(b.typ) == sortInt {
			lo, hi, okr := intRange(t)
			if okr && lo != nil {
				e.v.needPow2()
				width := int64(hi.BitLen())
				if lo.Sign() < 0 {
					width++
				}
				if op == token.SHL {
					return wrapInt(t, fmt.Sprintf("(ite (< %s %d) (* %s (pow2 %s)) 0)", b.term, width, a.term, b.term))
				}
				return fmt.Sprintf("(ite (< %s %d) (div %s (pow2 %s)) (ite (>= %s 0) 0 (- 1)))", b.term, width, a.term, b.term, a.term)
			}
		}
		fn := "bitop_" + sanitize(op.String())
		e.v.declFun(fn, "(Int Int) Int")
		r := "(" + fn + " " + a.term + " " + b.term + ")"
		res := e.q.define("bitop", sortInt, r)
		st.assume(inRange(t, res))
		if op == token.OR {
			// x | y = x + y when x is a non-negative multiple of 2^k and 0 <= y < 2^k
			// (applied for the k of an operand that is a shift by a constant)
			for _, pair := range [][2]Value{{a, b}, {b, a}} {
				if k, ok := shiftConstOf(fr0(e), pair[0]); ok {
					st.assume(fmt.Sprintf("(=> (and (>= %[1]s 0) (= (mod %[1]s %[3]s) 0) (<= 0 %[2]s) (< %[2]s %[3]s)) (= %[4]s (+ %[1]s %[2]s)))", pair[0].term, pair[1].term, pow2(k), res))
				}
			}
		}
		lo, _, _ := intRange(t)
		if lo != nil && lo.Sign() == 0 {
			switch op {
			case token.AND:
				st.assume("(and (<= " + res + " " + a.term + ") (<= " + res + " " + b.term + "))")
			case token.OR:
				st.assume("(and (>= " + res + " " + a.term + ") (>= " + res + " " + b.term + "))")
			case token.SHR:
				st.assume("(<= " + res + " " + a.term + ")")
			}
		}
		e.q.note("abstraction: bit operation %s modelled as uninterpreted function with bounds", op)
		return res
	}
	panic("int op " + op.String())
}

func maskBits(n int64) (int64, bool) {
	k := int64(0)
	for m := n; m > 0; m >>= 1 {
		if m&1 == 0 {
			return 0, false
		}
		k++
	}
	return k, n > 0
}

func (e *Enc) unop(fr *frame, st *State, x *ssa.UnOp) Value {
	a := fr.val(st, x.X)
	switch x.Op {
	case token.NOT:
		return Value{term: not(a.term), typ: x.Type()}
	case token.SUB:
		if e.u.sortOf(x.Type()) == sortFlt {
			return Value{term: "(flt_op 0 flt_zero " + a.term + ")", typ: x.Type()}
		}
		return Value{term: e.q.define(fr.prefix+x.Name(), sortInt, wrapInt(x.Type(), "(- "+a.term+")")), typ: x.Type()}
	case token.XOR:
		// ^x = -x-1 (signed) ; max - x (unsigned)
		lo, hi, _ := intRange(x.Type())
		if lo.Sign() == 0 {
			return Value{term: "(- " + hi.String() + " " + a.term + ")", typ: x.Type()}
		}
		return Value{term: "(- (- " + a.term + ") 1)", typ: x.Type()}
	case token.MUL: // load
		e.checkNonNilPtr(st, a, x.Pos(), "load")
		v := e.loadPtr(st, a, x.Pos())
		v.term = e.q.define(fr.prefix+x.Name(), e.u.sortOf(v.typ), v.term)
		st.assume(e.wf(st, v.typ, v.term))
		if a.addr != nil && len(a.addr.path) == 0 {
			if t, fi := e.fieldInvTerm(st, a.addr.key, v); fi != nil {
				st.assume(t)
			}
		}
		if a.addr != nil && len(a.addr.path) == 0 && e.v.sliceNormKeys[a.addr.key] {
			// invariant of this field (checked at every store): offset 0
			st.assume("(= (s_off " + v.term + ") 0)")
			e.q.markOff0(v.term)
		}
		if g, ok := x.X.(*ssa.Global); ok && e.v.globalInitNonNil(g) {
			switch e.u.sortOf(v.typ) {
			case sortIface:
				st.assume("(not (= (itag " + v.term + ") 0))")
			case sortInt:
				if isRefLike(v.typ) {
					st.assume("(not (= " + v.term + " 0))")
				}
			}
		}
		return v
	case token.ARROW: // channel receive
		return e.recv(fr, st, x, a)
	}
	panic("unop " + x.Op.String())
}

func (e *Enc) convert(fr *frame, st *State, x *ssa.Convert) Value {
	a := fr.val(st, x.X)
	from, to := x.X.Type(), x.Type()
	sf, sto := e.u.sortOf(from), e.u.sortOf(to)
	switch {
	case sf == sortInt && sto == sortInt:
		if isRefLike(from) || isRefLike(to) {
			return Value{term: a.term, typ: to}
		}
		return Value{term: e.q.define(fr.prefix+x.Name(), sortInt, wrapInt(to, a.term)), typ: to}
	case sf == sortString && sto == sortString:
		return Value{term: a.term, typ: to}
	case sf == sortFlt && sto == sortFlt:
		return Value{term: a.term, typ: to}
	case sf == sortInt && sto == sortFlt:
		return Value{term: "(flt_of_int " + a.term + ")", typ: to}
	case sf == sortFlt && sto == sortInt:
		v := e.freshValue(st, fr.prefix+x.Name(), to)
		e.q.note("abstraction: float->int conversion yields an unconstrained in-range integer")
		return v
	case sf == sortInt && sto == sortString:
		// string(rune)
		return Value{term: e.q.fresh(fr.prefix+x.Name(), sortString), typ: to}
	case sf == sortString && sto == sortSlice:
		v := e.freshValue(st, fr.prefix+x.Name(), to)
		st.assume("(= (s_len " + v.term + ") (str.len " + a.term + "))")
		e.bytesOfString(st, v, a.term)
		return v
	case sf == sortSlice && sto == sortString:
		if et, ok := from.Underlying().(*types.Slice); ok {
			if b, ok := et.Elem().Underlying().(*types.Basic); ok && b.Kind() == types.Uint8 {
				// string(b) is a function of the bytes of b at this moment
				v := Value{term: e.q.define(fr.prefix+x.Name(), sortString, e.bytesToString(st, a)), typ: to}
				st.assume("(= (s_len " + a.term + ") (str.len " + v.term + "))")
				return v
			}
		}
		v := Value{term: e.q.fresh(fr.prefix+x.Name(), sortString), typ: to}
		st.assume("(= (s_len " + a.term + ") (str.len " + v.term + "))")
		return v
	case sf == sortSlice && sto == sortSlice:
		return Value{term: a.term, typ: to}
	}
	panic(fmt.Sprintf("convert %s -> %s", from, to))
}

// bytesToString: the string conversion of a byte slice, as an uninterpreted
// function of its backing array, offset and length.
func (e *Enc) bytesToString(st *State, a Value) string {
	ek := e.elemKey(types.Typ[types.Uint8])
	e.v.declFun("bytes2str", "((Array Int Int) Int Int) String")
	return fmt.Sprintf("(bytes2str (select %s (s_arr %s)) %s (s_len %s))", st.get(ek), a.term, e.q.offOf(a.term), a.term)
}

func (e *Enc) bytesOfString(st *State, sl Value, s string) {
	// contents relation omitted (opaque); length is exact.
}

var bigOne = newBig(1)

// capturedReadOnly: a heap-allocated local that escapes only into closures
// which never write it (other goroutines can then only read it, so its
// content as tracked by the creating function stays exact).
func capturedReadOnly(a *ssa.Alloc) bool {
	refs := a.Referrers()
	if refs == nil {
		return false
	}
	for _, r := range *refs {
		switch x := r.(type) {
		case *ssa.Store:
			if x.Addr != ssa.Value(a) {
				return false // the address itself is stored somewhere
			}
		case *ssa.UnOp:
			if x.Op != token.MUL {
				return false
			}
		case *ssa.DebugRef:
		case *ssa.MakeClosure:
			fn := x.Fn.(*ssa.Function)
			for i, b := range x.Bindings {
				if b == ssa.Value(a) {
					if !freeVarReadOnly(fn.FreeVars[i], 0) {
						return false
					}
				}
			}
		default:
			return false
		}
	}
	return true
}

func freeVarReadOnly(fv *ssa.FreeVar, depth int) bool {
	if depth > 3 {
		return false
	}
	refs := fv.Referrers()
	if refs == nil {
		return true
	}
	for _, r := range *refs {
		switch x := r.(type) {
		case *ssa.UnOp:
			if x.Op != token.MUL {
				return false
			}
		case *ssa.DebugRef:
		case *ssa.MakeClosure:
			fn := x.Fn.(*ssa.Function)
			for i, b := range x.Bindings {
				if b == ssa.Value(fv) {
					if !freeVarReadOnly(fn.FreeVars[i], depth+1) {
						return false
					}
				}
			}
		default:
			return false
		}
	}
	return true
}

// returnSiteChecks asserts the contract's returnsite clauses at one return
// statement: they may mention local variables (as defined at that return) and
// result0..n / named results.
func (e *Enc) returnSiteChecks(fr *frame, st *State, vals []Value, pos token.Pos) {
	con := fr.con
	fr.curPos = pos
	defer func() { fr.curPos = token.NoPos }()
	for _, c := range con.ReturnSites {
		env := e.frameEnv(fr, st)
		e.lenientLocals(fr, st, env)
		env.results = vals
		sig := fr.fn.Signature
		for i := 0; i < sig.Results().Len() && i < len(vals); i++ {
			if n := sig.Results().At(i).Name(); n != "" && n != "_" {
				env.vars[n] = vals[i]
			}
		}
		env.where = "returnsite at " + e.pos(pos)
		e.v.callsiteHits[con.Key+"/"+c.Label]++
		e.obligeClauseNamed(env, st, "returnsite", c.Label, c, pos)
	}
}

func fr0(e *Enc) *Enc { return e }

// shift constants recorded (per query) for values produced by "x << k" with constant k
func shiftConstOf(e *Enc, v Value) (int64, bool) {
	k, ok := e.q.shlConst[v.term]
	return k, ok
}
