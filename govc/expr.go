package main

// Contract expression language: Go-like expressions plus ==>, <==>,
// forall/exists, old(), in, type tests.

import (
	"fmt"
	"strings"
	"unicode"
)

type qvar struct {
	Name string
	Type string
}

type Expr struct {
	Op   string // "lit-int","lit-str","lit-char","ident","sel","index","call","unary","binary","forall","exists","typeassert","cond","slice"
	Name string // ident name / selector field / operator / called function
	Args []*Expr
	Vars []qvar
	Type string // for typeassert / conversions
	Pos  int
}

func (x *Expr) String() string {
	switch x.Op {
	case "lit-int", "lit-str", "lit-char", "ident":
		return x.Name
	case "sel":
		return x.Args[0].String() + "." + x.Name
	case "index":
		return x.Args[0].String() + "[" + x.Args[1].String() + "]"
	case "call":
		var as []string
		for _, a := range x.Args {
			as = append(as, a.String())
		}
		return x.Name + "(" + strings.Join(as, ", ") + ")"
	case "unary":
		return x.Name + x.Args[0].String()
	case "binary":
		return "(" + x.Args[0].String() + " " + x.Name + " " + x.Args[1].String() + ")"
	case "forall", "exists":
		var vs []string
		for _, v := range x.Vars {
			vs = append(vs, v.Name+" "+v.Type)
		}
		return "(" + x.Op + " " + strings.Join(vs, ", ") + " :: " + x.Args[0].String() + ")"
	case "typeassert":
		return x.Args[0].String() + ".(" + x.Type + ")"
	case "cond":
		return "(" + x.Args[0].String() + " ? " + x.Args[1].String() + " : " + x.Args[2].String() + ")"
	}
	return "?"
}

type lexTok struct {
	kind string // "ident","int","str","char","op","eof"
	text string
	pos  int
}

func lexExpr(s string) ([]lexTok, error) {
	var toks []lexTok
	i := 0
	for i < len(s) {
		c := s[i]
		switch {
		case c == ' ' || c == '\t' || c == '\n':
			i++
		case unicode.IsLetter(rune(c)) || c == '_':
			j := i
			for j < len(s) && (unicode.IsLetter(rune(s[j])) || unicode.IsDigit(rune(s[j])) || s[j] == '_') {
				j++
			}
			toks = append(toks, lexTok{"ident", s[i:j], i})
			i = j
		case c >= '0' && c <= '9':
			j := i
			for j < len(s) && (s[j] >= '0' && s[j] <= '9' || s[j] == 'x' || s[j] >= 'a' && s[j] <= 'f' || s[j] >= 'A' && s[j] <= 'F' || s[j] == '_') {
				j++
			}
			toks = append(toks, lexTok{"int", s[i:j], i})
			i = j
		case c == '"':
			j := i + 1
			for j < len(s) && s[j] != '"' {
				if s[j] == '\\' {
					j++
				}
				j++
			}
			if j >= len(s) {
				return nil, fmt.Errorf("unterminated string")
			}
			toks = append(toks, lexTok{"str", s[i : j+1], i})
			i = j + 1
		case c == '\'':
			j := i + 1
			for j < len(s) && s[j] != '\'' {
				if s[j] == '\\' {
					j++
				}
				j++
			}
			toks = append(toks, lexTok{"char", s[i : j+1], i})
			i = j + 1
		default:
			ops := []string{"<==>", "==>", "::", "&&", "||", "==", "!=", "<=", ">=", "<<", ">>", "+", "-", "*", "/", "%", "<", ">", "!", "(", ")", "[", "]", ",", ".", ":", "?", "{", "}"}
			matched := false
			for _, op := range ops {
				if strings.HasPrefix(s[i:], op) {
					toks = append(toks, lexTok{"op", op, i})
					i += len(op)
					matched = true
					break
				}
			}
			if !matched {
				return nil, fmt.Errorf("unexpected character %q at %d", c, i)
			}
		}
	}
	toks = append(toks, lexTok{"eof", "", len(s)})
	return toks, nil
}

type parser struct {
	toks []lexTok
	p    int
	src  string
}

func parseExpr(s string) (*Expr, error) {
	toks, err := lexExpr(s)
	if err != nil {
		return nil, err
	}
	ps := &parser{toks: toks, src: s}
	x, err := ps.parseBin(0)
	if err != nil {
		return nil, err
	}
	if ps.peek().kind != "eof" {
		return nil, fmt.Errorf("unexpected %q at %d", ps.peek().text, ps.peek().pos)
	}
	return x, nil
}

func (p *parser) peek() lexTok { return p.toks[p.p] }
func (p *parser) next() lexTok { t := p.toks[p.p]; p.p++; return t }
func (p *parser) accept(op string) bool {
	if t := p.peek(); t.kind == "op" && t.text == op {
		p.p++
		return true
	}
	return false
}
func (p *parser) expect(op string) error {
	if !p.accept(op) {
		return fmt.Errorf("expected %q at %d, got %q", op, p.peek().pos, p.peek().text)
	}
	return nil
}

var binPrec = map[string]int{
	"<==>": 1, "==>": 2, "?": 3, "||": 4, "&&": 5,
	"==": 6, "!=": 6, "<": 6, "<=": 6, ">": 6, ">=": 6, "in": 6,
	"+": 7, "-": 7, "*": 8, "/": 8, "%": 8,
}

func (p *parser) parseBin(minPrec int) (*Expr, error) {
	lhs, err := p.parseUnary()
	if err != nil {
		return nil, err
	}
	for {
		t := p.peek()
		op := t.text
		if t.kind == "ident" && op == "in" {
			// ok
		} else if t.kind != "op" {
			break
		}
		prec, ok := binPrec[op]
		if !ok || prec < minPrec {
			break
		}
		p.next()
		if op == "?" {
			a, err := p.parseBin(prec + 1)
			if err != nil {
				return nil, err
			}
			if err := p.expect(":"); err != nil {
				return nil, err
			}
			b, err := p.parseBin(prec)
			if err != nil {
				return nil, err
			}
			lhs = &Expr{Op: "cond", Args: []*Expr{lhs, a, b}, Pos: t.pos}
			continue
		}
		var rhs *Expr
		if op == "==>" || op == "<==>" {
			rhs, err = p.parseBin(prec) // right assoc
		} else {
			rhs, err = p.parseBin(prec + 1)
		}
		if err != nil {
			return nil, err
		}
		lhs = &Expr{Op: "binary", Name: op, Args: []*Expr{lhs, rhs}, Pos: t.pos}
	}
	return lhs, nil
}

func (p *parser) parseUnary() (*Expr, error) {
	t := p.peek()
	if t.kind == "op" && (t.text == "!" || t.text == "-" || t.text == "*") {
		p.next()
		x, err := p.parseUnary()
		if err != nil {
			return nil, err
		}
		return &Expr{Op: "unary", Name: t.text, Args: []*Expr{x}, Pos: t.pos}, nil
	}
	if t.kind == "ident" && (t.text == "forall" || t.text == "exists") {
		p.next()
		var vars []qvar
		for {
			n := p.next()
			if n.kind != "ident" {
				return nil, fmt.Errorf("quantifier variable expected at %d", n.pos)
			}
			ty, err := p.parseTypeText()
			if err != nil {
				return nil, err
			}
			vars = append(vars, qvar{Name: n.text, Type: ty})
			if !p.accept(",") {
				break
			}
		}
		if err := p.expect("::"); err != nil {
			return nil, err
		}
		body, err := p.parseBin(0)
		if err != nil {
			return nil, err
		}
		return &Expr{Op: t.text, Vars: vars, Args: []*Expr{body}, Pos: t.pos}, nil
	}
	return p.parsePostfix()
}

// parseTypeText consumes a type expression and returns its source text.
func (p *parser) parseTypeText() (string, error) {
	var b strings.Builder
	for {
		t := p.peek()
		switch {
		case t.kind == "op" && t.text == "*":
			p.next()
			b.WriteString("*")
			continue
		case t.kind == "op" && t.text == "[":
			p.next()
			if p.accept("]") {
				b.WriteString("[]")
				continue
			}
			return "", fmt.Errorf("array types unsupported at %d", t.pos)
		case t.kind == "ident" && t.text == "map":
			p.next()
			if err := p.expect("["); err != nil {
				return "", err
			}
			k, err := p.parseTypeText()
			if err != nil {
				return "", err
			}
			if err := p.expect("]"); err != nil {
				return "", err
			}
			v, err := p.parseTypeText()
			if err != nil {
				return "", err
			}
			b.WriteString("map[" + k + "]" + v)
			return b.String(), nil
		case t.kind == "ident" && t.text == "set":
			p.next()
			if err := p.expect("["); err != nil {
				return "", err
			}
			k, err := p.parseTypeText()
			if err != nil {
				return "", err
			}
			if err := p.expect("]"); err != nil {
				return "", err
			}
			b.WriteString("set[" + k + "]")
			return b.String(), nil
		case t.kind == "ident":
			p.next()
			b.WriteString(t.text)
			if p.peek().kind == "op" && p.peek().text == "." {
				p.next()
				n := p.next()
				b.WriteString("." + n.text)
			}
			if t.text == "struct" && p.accept("{") {
				if err := p.expect("}"); err != nil {
					return "", err
				}
				b.WriteString("{}")
			}
			return b.String(), nil
		default:
			return "", fmt.Errorf("type expected at %d", t.pos)
		}
	}
}

func (p *parser) parsePostfix() (*Expr, error) {
	x, err := p.parsePrimary()
	if err != nil {
		return nil, err
	}
	for {
		t := p.peek()
		if t.kind != "op" {
			break
		}
		switch t.text {
		case ".":
			p.next()
			if p.accept("(") {
				ty, err := p.parseTypeText()
				if err != nil {
					return nil, err
				}
				if err := p.expect(")"); err != nil {
					return nil, err
				}
				x = &Expr{Op: "typeassert", Args: []*Expr{x}, Type: ty, Pos: t.pos}
				continue
			}
			n := p.next()
			if n.kind != "ident" {
				return nil, fmt.Errorf("field name expected at %d", n.pos)
			}
			x = &Expr{Op: "sel", Name: n.text, Args: []*Expr{x}, Pos: t.pos}
		case "[":
			p.next()
			i, err := p.parseBin(0)
			if err != nil {
				return nil, err
			}
			if err := p.expect("]"); err != nil {
				return nil, err
			}
			x = &Expr{Op: "index", Args: []*Expr{x, i}, Pos: t.pos}
		case "(":
			// call: callee must be ident or sel
			p.next()
			var args []*Expr
			if !p.accept(")") {
				for {
					a, err := p.parseBin(0)
					if err != nil {
						return nil, err
					}
					args = append(args, a)
					if p.accept(")") {
						break
					}
					if err := p.expect(","); err != nil {
						return nil, err
					}
				}
			}
			name := ""
			switch x.Op {
			case "ident":
				name = x.Name
			case "sel":
				name = x.String()
			default:
				return nil, fmt.Errorf("cannot call %s", x)
			}
			x = &Expr{Op: "call", Name: name, Args: args, Pos: t.pos}
		default:
			return x, nil
		}
	}
	return x, nil
}

func (p *parser) parsePrimary() (*Expr, error) {
	t := p.next()
	switch t.kind {
	case "int":
		return &Expr{Op: "lit-int", Name: strings.ReplaceAll(t.text, "_", ""), Pos: t.pos}, nil
	case "str":
		return &Expr{Op: "lit-str", Name: t.text, Pos: t.pos}, nil
	case "char":
		return &Expr{Op: "lit-char", Name: t.text, Pos: t.pos}, nil
	case "ident":
		return &Expr{Op: "ident", Name: t.text, Pos: t.pos}, nil
	case "op":
		if t.text == "[" && p.peek().kind == "op" && p.peek().text == "]" {
			// slice type literal used as an argument, e.g. is(v, []byte)
			p.next()
			ty, err := p.parseTypeText()
			if err != nil {
				return nil, err
			}
			return &Expr{Op: "ident", Name: "[]" + ty, Pos: t.pos}, nil
		}
		if t.text == "(" {
			// parenthesised expression, or pointer-type conversion (*T)(x)
			x, err := p.parseBin(0)
			if err != nil {
				return nil, err
			}
			if err := p.expect(")"); err != nil {
				return nil, err
			}
			return x, nil
		}
	}
	return nil, fmt.Errorf("unexpected %q at %d", t.text, t.pos)
}
