package main

// Verifier: global context, write-set analysis, per-function driver, SMT
// prelude generation.

import (
	"bytes"
	"context"
	"fmt"
	"go/ast"
	"go/printer"
	"go/token"
	"go/types"
	"os"
	"path/filepath"
	"sort"
	"strings"

	"golang.org/x/tools/go/packages"
	"golang.org/x/tools/go/ssa"
	"golang.org/x/tools/go/ssa/ssautil"
)

const repoMod = "github.com/gammazero/nexus/v3"

type Verifier struct {
	fset      *token.FileSet
	prog      *ssa.Program
	pkgs      []*packages.Package
	ssaPkgs   map[string]*ssa.Package
	pkgByName map[string]*types.Package
	pkgByPath map[string]*types.Package
	db        *ContractDB
	u         *Universe
	repoDir   string

	funDecls   map[string]string
	funOrder   []string
	funcRefs   map[string]bool
	globalRefs map[string]bool
	refNums    map[string]int
	implFuns   map[string]types.Type
	refLangs   map[string]string
	specDefs   []string
	specDone   map[string]bool
	implTypes  []types.Type

	escapedAddr     bool
	blocking        []string
	specErrors      []string
	uncontracted    map[string]bool
	calledContracts map[string]bool
	trustedUsed     map[string]bool
	callsiteHits    map[string]int
	fnByKey         map[string]*ssa.Function
	writesCache     map[*ssa.Function]*writeSet
	writesBusy      map[*ssa.Function]bool
	closedCheck     map[string]bool
	loadErrors      []string
	regexUsed       map[string]string
	allFns          map[*ssa.Function]bool
	fieldInvs       map[string]*FieldInv // heap key -> invariant
	autoFrameOff    map[string]bool
	scratch         *Enc
	globNonNil      map[*ssa.Global]bool
	immutableKeys   map[string]bool
	sliceNormKeys   map[string]bool
	opaqueDefs      map[string]*opaqueDef
	lemmasUsed      map[string]bool
	autoFrameKept   map[string]bool
	sweepMode       bool
	sweepScope      func(key string) bool // functions verified by the zero-annotation sweep of the running check
	curWS           *writeSet
}

type writeSet struct {
	keys   map[string]bool
	all    bool
	ghosts bool // sends (ghost sendcount)
	closes bool // close / make(chan) (ghost closed)
	// unknown: "all" is (also) due to code whose writes are not known (dynamic
	// calls, external functions, recursion, "modifies everything") rather than
	// only to blocking operations during which other goroutines run
	unknown bool
}

func loadVerifier(repoDir string) (*Verifier, error) {
	v := &Verifier{repoDir: repoDir, u: newUniverse(), db: newContractDB(),
		ssaPkgs: map[string]*ssa.Package{}, pkgByName: map[string]*types.Package{}, pkgByPath: map[string]*types.Package{},
		funDecls: map[string]string{}, funcRefs: map[string]bool{}, globalRefs: map[string]bool{}, refNums: map[string]int{},
		implFuns: map[string]types.Type{}, refLangs: map[string]string{}, specDone: map[string]bool{},
		uncontracted: map[string]bool{}, calledContracts: map[string]bool{}, trustedUsed: map[string]bool{}, callsiteHits: map[string]int{},
		fnByKey: map[string]*ssa.Function{}, writesCache: map[*ssa.Function]*writeSet{}, writesBusy: map[*ssa.Function]bool{}, closedCheck: map[string]bool{}, regexUsed: map[string]string{}}
	v.refLangs = referenceLanguages()
	v.autoFrameOff = map[string]bool{}
	v.autoFrameKept = map[string]bool{}
	v.globNonNil = map[*ssa.Global]bool{}
	v.opaqueDefs = map[string]*opaqueDef{}
	v.lemmasUsed = map[string]bool{}
	cfg := &packages.Config{Mode: packages.LoadAllSyntax, Dir: repoDir, BuildFlags: []string{"-tags=verif"}}
	cfg.Env = append(os.Environ(), "PATH=/opt/veriftools/go1.26.8/bin:"+os.Getenv("PATH"), "GOTOOLCHAIN=local", "GOFLAGS=-mod=mod", "GOPROXY=off", "GOSUMDB=off")
	pkgs, err := packages.Load(cfg, "./wamp/...", "./router/...", "./transport/...", "./client/...", "./stdlog/...")
	if err != nil {
		return nil, err
	}
	for _, p := range pkgs {
		for _, e := range p.Errors {
			v.loadErrors = append(v.loadErrors, e.Error())
		}
	}
	if len(v.loadErrors) > 0 {
		return v, fmt.Errorf("package load errors: %s", strings.Join(v.loadErrors, "; "))
	}
	v.pkgs = pkgs
	v.fset = pkgs[0].Fset
	prog, spkgs := ssautil.AllPackages(pkgs, ssa.InstantiateGenerics|ssa.GlobalDebug)
	prog.Build()
	v.prog = prog
	for i, sp := range spkgs {
		if sp == nil {
			continue
		}
		v.ssaPkgs[sp.Pkg.Path()] = sp
		_ = i
	}
	for _, sp := range prog.AllPackages() {
		v.pkgByPath[sp.Pkg.Path()] = sp.Pkg
		if strings.HasPrefix(sp.Pkg.Path(), repoMod) || v.pkgByName[sp.Pkg.Name()] == nil {
			v.pkgByName[sp.Pkg.Name()] = sp.Pkg
		}
	}
	for fn := range ssautil.AllFunctions(prog) {
		v.fnByKey[funcKey(fn)] = fn
	}
	// contract files
	for _, p := range pkgs {
		if !strings.HasPrefix(p.PkgPath, repoMod) {
			continue
		}
		for _, f := range p.GoFiles {
			if filepath.Base(f) == "verif_contracts.go" {
				v.db.parseContractFile(f, p.PkgPath)
			}
		}
	}
	v.immutableKeys = map[string]bool{}
	for _, im := range v.db.Immutable {
		pkg := v.pkgByPath[im.Pkg]
		tn := im.Type
		if i := strings.Index(tn, "."); i >= 0 {
			pkg = v.pkgByName[tn[:i]]
			tn = tn[i+1:]
		}
		if pkg == nil || pkg.Scope().Lookup(tn) == nil {
			v.db.Errors = append(v.db.Errors, fmt.Sprintf("%s:%d: immutable: unknown type %s", im.File, im.Line, im.Type))
			continue
		}
		o := pkg.Scope().Lookup(tn)
		st, ok := o.Type().Underlying().(*types.Struct)
		if !ok {
			continue
		}
		for i := 0; i < st.NumFields(); i++ {
			for _, f := range im.Fields {
				if f == "*" || f == st.Field(i).Name() {
					if _, nested := st.Field(i).Type().Underlying().(*types.Struct); nested {
						continue
					}
					v.immutableKeys[fmt.Sprintf("F:%s:%d:%s", structKey(o.Type()), i, st.Field(i).Name())] = true
				}
			}
		}
	}
	for k := range v.immutableKeys {
		immutableHeapKeys[k] = true
	}
	v.sliceNormKeys = map[string]bool{}
	for _, im := range v.db.SliceNorm {
		pkg := v.pkgByPath[im.Pkg]
		if pkg == nil || pkg.Scope().Lookup(im.Type) == nil {
			v.db.Errors = append(v.db.Errors, fmt.Sprintf("%s:%d: slicenorm: unknown type %s", im.File, im.Line, im.Type))
			continue
		}
		o := pkg.Scope().Lookup(im.Type)
		st, ok := o.Type().Underlying().(*types.Struct)
		if !ok {
			continue
		}
		for i := 0; i < st.NumFields(); i++ {
			for _, f := range im.Fields {
				if f == st.Field(i).Name() {
					v.sliceNormKeys[fmt.Sprintf("F:%s:%d:%s", structKey(o.Type()), i, st.Field(i).Name())] = true
				}
			}
		}
	}
	v.fieldInvs = map[string]*FieldInv{}
	for _, fi := range v.db.FieldInvs {
		pkg := v.pkgByPath[fi.Pkg]
		o := pkg.Scope().Lookup(fi.Type)
		if o == nil {
			v.db.Errors = append(v.db.Errors, fmt.Sprintf("fieldinv: unknown type %s", fi.Type))
			continue
		}
		st, ok := o.Type().Underlying().(*types.Struct)
		if !ok {
			continue
		}
		found := false
		for i := 0; i < st.NumFields(); i++ {
			if st.Field(i).Name() == fi.Field {
				v.fieldInvs[fmt.Sprintf("F:%s:%d:%s", structKey(o.Type()), i, fi.Field)] = fi
				found = true
			}
		}
		if !found {
			v.db.Errors = append(v.db.Errors, fmt.Sprintf("fieldinv: unknown field %s.%s", fi.Type, fi.Field))
		}
	}
	return v, nil
}

// fieldInvTerm evaluates the field invariant of heap key for value term.
func (e *Enc) fieldInvTerm(st *State, key string, val Value) (string, *FieldInv) {
	fi := e.v.fieldInvs[key]
	if fi == nil {
		return "true", nil
	}
	env := &SpecEnv{e: e, pkg: e.v.pkgByPath[fi.Pkg], vars: map[string]Value{"v": val}, cur: st, where: "fieldinv " + fi.Type + "." + fi.Field}
	return e.evalClause(env, fi.Clause), fi
}

func (v *Verifier) declFun(name, sig string) {
	if _, ok := v.funDecls[name]; ok {
		return
	}
	v.funDecls[name] = sig
	v.funOrder = append(v.funOrder, name)
	if strings.HasPrefix(name, "fn_") || strings.HasPrefix(name, "glob_") {
		v.refNums[name] = len(v.refNums) + 1
	}
}

func (v *Verifier) noteImpl(t types.Type) {}

func (v *Verifier) useTrusted(key string) { v.trustedUsed[key] = true }

func (v *Verifier) inRepo(fn *ssa.Function) bool {
	return fn.Pkg != nil && strings.HasPrefix(fn.Pkg.Pkg.Path(), repoMod)
}

// autoInline: tiny leaf functions (one block, no calls, no stores) are
// expanded at call sites instead of being abstracted.
func (v *Verifier) autoInline(fn *ssa.Function) bool {
	if len(fn.Blocks) != 1 || len(fn.Blocks[0].Instrs) > 8 {
		return false
	}
	for _, ins := range fn.Blocks[0].Instrs {
		switch ins.(type) {
		case *ssa.Return, *ssa.FieldAddr, *ssa.UnOp, *ssa.DebugRef, *ssa.ChangeType, *ssa.Convert, *ssa.Field, *ssa.BinOp, *ssa.MakeInterface:
		default:
			return false
		}
	}
	return true
}

func (v *Verifier) checkClosed(e *Enc) bool {
	return e.contract != nil && v.closedCheck[e.contract.Key]
}

// externalPure: external functions assumed to have no effect on modelled
// state and not to panic (listed in evidence as trusted).
var purePkgs = map[string]bool{
	"fmt": true, "errors": true, "strings": true, "strconv": true, "time": true, "log": true,
	"unicode/utf8": true, "unicode": true, "math": true, "math/bits": true, "bytes": true, "os": true,
	"encoding/base64": true, "encoding/hex": true, "crypto/hmac": true, "crypto/sha256": true, "crypto/rand": true,
	"crypto/subtle": true, "math/big": true, "math/rand": true, "context": true, "sync": true, "sync/atomic": true,
	"golang.org/x/crypto/pbkdf2": true, "golang.org/x/crypto/nacl/sign": true, "crypto/ed25519": true,
	"net/http": true, "net": true, "net/url": true, "regexp": true, "slices": false, "maps": false, "sort": false, "reflect": true,
	"runtime": true, "encoding/json": true, "encoding/binary": true, "hash": true, "io": false, "bufio": false,
	"github.com/gammazero/nexus/v3/stdlog": true, "crypto/tls": true,
}

func (v *Verifier) externalPure(fn *ssa.Function) bool {
	p := fn.Pkg
	if p == nil {
		// method of instantiated generic or synthetic wrapper
		if fn.Origin() != nil && fn.Origin().Pkg != nil {
			return purePkgs[fn.Origin().Pkg.Pkg.Path()]
		}
		if recv := fn.Signature.Recv(); recv != nil {
			if pk := pkgOfType(recv.Type()); pk != nil {
				return purePkgs[pk.Path()]
			}
		}
		return false
	}
	return purePkgs[p.Pkg.Path()]
}

func pkgOfType(t types.Type) *types.Package {
	if p, ok := t.Underlying().(*types.Pointer); ok {
		t = p.Elem()
	}
	if p, ok := types.Unalias(t).(*types.Pointer); ok {
		t = p.Elem()
	}
	if n, ok := types.Unalias(t).(*types.Named); ok {
		return n.Obj().Pkg()
	}
	return nil
}

func (v *Verifier) ifacePure(m *types.Func) bool {
	if m.Pkg() == nil {
		return true // error.Error etc.
	}
	return purePkgs[m.Pkg().Path()]
}

func (v *Verifier) srcText(n ast.Node) string {
	var b bytes.Buffer
	printer.Fprint(&b, v.fset, n)
	return b.String()
}

// ownedKeys lists heap-key prefixes confined to a component's goroutine.
func (v *Verifier) ownedKeys(comp string) []string {
	var out []string
	for tn, c := range v.db.Owned {
		if c != comp {
			continue
		}
		i := strings.LastIndex(tn, ".")
		pkg := v.pkgByPath[tn[:i]]
		if pkg == nil {
			continue
		}
		o := pkg.Scope().Lookup(tn[i+1:])
		if o == nil {
			continue
		}
		st, ok := o.Type().Underlying().(*types.Struct)
		if !ok {
			continue
		}
		out = append(out, fmt.Sprintf("F:%s:", structKey(o.Type())))
		for k := 0; k < st.NumFields(); k++ {
			switch ft := st.Field(k).Type().Underlying().(type) {
			case *types.Map:
				n := mapTypeName(ft)
				out = append(out, "MD:"+n, "MV:"+n, "ML:"+n)
				// one level of nested maps (sets per session)
				if inner, ok := ft.Elem().Underlying().(*types.Map); ok {
					n2 := mapTypeName(inner)
					out = append(out, "MD:"+n2, "MV:"+n2, "ML:"+n2)
				}
			case *types.Slice:
				out = append(out, "E:"+shortTypeName(ft.Elem()))
			}
		}
	}
	sort.Strings(out)
	return out
}

// ---------------------------------------------------------------------------
// write sets

func (v *Verifier) funcWrites(e *Enc, fn *ssa.Function) ([]string, bool, bool) {
	ws := v.funcWriteSet(e, fn)
	var keys []string
	for k := range ws.keys {
		keys = append(keys, k)
	}
	sort.Strings(keys)
	return keys, ws.all, ws.ghosts
}

func (v *Verifier) funcWriteSet(e *Enc, fn *ssa.Function) *writeSet {
	if ws, ok := v.writesCache[fn]; ok {
		return ws
	}
	if v.writesBusy[fn] {
		v.markUnknown()
		return &writeSet{keys: map[string]bool{}, all: true, ghosts: true, unknown: true}
	}
	v.writesBusy[fn] = true
	ws := &writeSet{keys: map[string]bool{}}
	if fn.Blocks == nil {
		ws.all = true
		ws.ghosts = true
		ws.unknown = true
	}
	saved := v.curWS
	v.curWS = ws
	defer func() {
		v.curWS = saved
		if ws.unknown {
			v.markUnknown()
		}
	}()
	for _, b := range fn.Blocks {
		for _, ins := range b.Instrs {
			k, a, g := v.instrWrites(e, ins, nil)
			for _, kk := range k {
				ws.keys[kk] = true
			}
			ws.all = ws.all || a
			ws.ghosts = ws.ghosts || g
			if v.instrCloses(ins) {
				ws.closes = true
			}
		}
	}
	delete(v.writesBusy, fn)
	v.writesCache[fn] = ws
	return ws
}

// markUnknown records that the write set being computed contains effects
// that are not known key by key.
func (v *Verifier) markUnknown() {
	if v.curWS != nil {
		v.curWS.unknown = true
	}
}

func (v *Verifier) scratchEnc() *Enc {
	if v.scratch == nil {
		v.scratch = &Enc{v: v, q: newQuery(v.u), u: v.u, oblCount: map[string]int{}, lastResTypes: map[string]types.Type{}}
	}
	return v.scratch
}

// instrCloses: does the instruction itself touch the ghost closed bits?
func (v *Verifier) instrCloses(ins ssa.Instruction) bool {
	switch x := ins.(type) {
	case *ssa.MakeChan:
		return true
	case *ssa.Call:
		if b, ok := x.Common().Value.(*ssa.Builtin); ok && b.Name() == "close" {
			return true
		}
		if fn := x.Common().StaticCallee(); fn != nil && fn.Blocks != nil && (v.inRepo(fn) || fn.Parent() != nil) {
			if con := v.db.Funcs[funcKey(fn)]; con != nil && con.HasMod && !con.Inline {
				for _, m := range con.Modifies {
					if strings.TrimSpace(m) == "ghost closed" || strings.TrimSpace(m) == "everything" {
						return true
					}
				}
				return false
			}
			if v.writesBusy[fn] {
				return true
			}
			return v.funcWriteSet(v.scratchEnc(), fn).closes
		}
	case *ssa.Defer:
		if b, ok := x.Common().Value.(*ssa.Builtin); ok && b.Name() == "close" {
			return true
		}
	}
	return false
}

func (v *Verifier) instrWrites(e *Enc, ins ssa.Instruction, fr *frame) (keys []string, all bool, ghosts bool) {
	switch x := ins.(type) {
	case *ssa.Store:
		return v.addrWrites(e, x.Addr), false, false
	case *ssa.MapUpdate:
		d, vv, l := e.mapKeys(x.Map.Type())
		return []string{d, vv, l}, false, false
	case *ssa.Send:
		return nil, true, true
	case *ssa.Select:
		if x.Blocking {
			return nil, true, true
		}
		return nil, false, true
	case *ssa.UnOp:
		if x.Op == token.ARROW {
			return nil, true, true
		}
	case *ssa.MakeChan:
		return nil, false, false
	case *ssa.Call:
		return v.callWrites(e, x.Common(), fr)
	case *ssa.Defer:
		return v.callWrites(e, x.Common(), fr)
	case *ssa.Alloc, *ssa.MakeMap, *ssa.MakeSlice, *ssa.MakeClosure:
		// allocation initialises fresh cells only; the keys change but no
		// pre-existing location does. Still listed so loops re-havoc them.
		switch y := ins.(type) {
		case *ssa.Alloc:
			return v.typeCellKeys(e, y.Type().Underlying().(*types.Pointer).Elem()), false, false
		case *ssa.MakeMap:
			d, vv, l := e.mapKeys(y.Type())
			return []string{d, vv, l}, false, false
		case *ssa.MakeSlice:
			return []string{e.elemKey(y.Type().Underlying().(*types.Slice).Elem())}, false, false
		}
	}
	return nil, false, false
}

func (v *Verifier) typeCellKeys(e *Enc, t types.Type) []string {
	switch x := t.Underlying().(type) {
	case *types.Struct:
		var out []string
		for i := 0; i < x.NumFields(); i++ {
			ft := x.Field(i).Type()
			if _, nested := ft.Underlying().(*types.Struct); nested {
				out = append(out, v.typeCellKeys(e, ft)...)
			} else {
				out = append(out, e.fieldKey(t, i))
			}
		}
		return out
	case *types.Array:
		return []string{e.elemKey(x.Elem())}
	}
	return []string{e.cellKey(t)}
}

func (v *Verifier) addrWrites(e *Enc, addr ssa.Value) []string {
	switch a := addr.(type) {
	case *ssa.FieldAddr:
		st := a.X.Type().Underlying().(*types.Pointer).Elem()
		// field of a struct inside a value cell (slice element)?
		if root := rootAddrKeys(v, e, a.X); root != nil {
			return root
		}
		ft := st.Underlying().(*types.Struct).Field(a.Field).Type()
		if _, nested := ft.Underlying().(*types.Struct); nested {
			return v.typeCellKeys(e, ft)
		}
		return []string{e.fieldKey(st, a.Field)}
	case *ssa.IndexAddr:
		switch bt := a.X.Type().Underlying().(type) {
		case *types.Slice:
			return []string{e.elemKey(bt.Elem())}
		case *types.Pointer:
			if root := rootAddrKeys(v, e, a.X); root != nil {
				return root
			}
			return []string{e.elemKey(bt.Elem().Underlying().(*types.Array).Elem())}
		}
	}
	pt := addr.Type().Underlying().(*types.Pointer)
	return v.typeCellKeys(e, pt.Elem())
}

// rootAddrKeys: if the pointer designates a location inside a value cell
// (element of a slice of structs), the write goes to the element array.
func rootAddrKeys(v *Verifier, e *Enc, p ssa.Value) []string {
	switch a := p.(type) {
	case *ssa.IndexAddr:
		if bt, ok := a.X.Type().Underlying().(*types.Slice); ok {
			return []string{e.elemKey(bt.Elem())}
		}
	case *ssa.FieldAddr:
		return rootAddrKeys(v, e, a.X)
	}
	return nil
}

func (v *Verifier) callWrites(e *Enc, c *ssa.CallCommon, fr *frame) (keys []string, all bool, ghosts bool) {
	if b, ok := c.Value.(*ssa.Builtin); ok && !c.IsInvoke() {
		switch b.Name() {
		case "append":
			return []string{e.elemKey(c.Args[0].Type().Underlying().(*types.Slice).Elem())}, false, false
		case "copy":
			return []string{e.elemKey(c.Args[0].Type().Underlying().(*types.Slice).Elem())}, false, false
		case "delete":
			d, vv, l := e.mapKeys(c.Args[0].Type())
			return []string{d, vv, l}, false, false
		case "close":
			return nil, false, false
		case "clear":
			v.markUnknown()
			return nil, true, true
		}
		return nil, false, false
	}
	if c.IsInvoke() {
		key := ifaceMethodKey(c.Method)
		if _, ok := trustedIfaceModels[key]; ok {
			return nil, false, false
		}
		if con := v.db.Ifaces[key]; con != nil && con.HasMod {
			k, a, g := v.contractWriteKeys(e, con, nil)
			if a {
				v.markUnknown()
			}
			return k, a, g
		}
		if v.ifacePure(c.Method) {
			return nil, false, false
		}
		v.markUnknown()
		return nil, true, true
	}
	fn := c.StaticCallee()
	if fn == nil {
		if mc, ok := c.Value.(*ssa.MakeClosure); ok {
			fn = mc.Fn.(*ssa.Function)
		} else if fr != nil {
			if val, ok := fr.vals[c.Value]; ok && val.clo != nil {
				fn = val.clo.fn
			}
		}
		if fn == nil {
			if e != nil && e.contract != nil && e.contract.DynPure {
				return nil, false, false
			}
			v.markUnknown()
			return nil, true, true
		}
	}
	key := funcKey(fn)
	if w, ok := trustedModelWrites[key]; ok {
		return w(e, c), false, false
	}
	if strings.HasPrefix(key, "maps.Copy[") {
		d, vv, l := e.mapKeys(c.Args[0].Type())
		return []string{d, vv, l}, false, false
	}
	if strings.HasPrefix(key, "slices.Clone[") {
		return []string{e.elemKey(c.Args[0].Type().Underlying().(*types.Slice).Elem())}, false, false
	}
	if strings.HasPrefix(key, "(*github.com/gammazero/deque.Deque[") {
		if fn.Name() == "PushBack" || fn.Name() == "PopFront" {
			var out []string
			for k := range globalHeapSort {
				if k == "DQL" || strings.HasPrefix(k, "DQE:") {
					out = append(out, k)
				}
			}
			if len(out) == 0 {
				v.markUnknown()
				return nil, true, false
			}
			return out, false, false
		}
		return nil, false, false
	}
	if _, _, ok := lookupModel2(key); ok {
		return nil, false, false
	}
	if con := v.db.Funcs[key]; con != nil && con.HasMod && !con.Inline {
		k, a, g := v.contractWriteKeys(e, con, fn)
		if a {
			v.markUnknown()
		}
		return k, a, g
	}
	if fn.Blocks != nil && (v.inRepo(fn) || fn.Parent() != nil) {
		ws := v.funcWriteSet(e, fn)
		for k := range ws.keys {
			keys = append(keys, k)
		}
		return keys, ws.all, ws.ghosts
	}
	if v.externalPure(fn) {
		return nil, false, false
	}
	v.markUnknown()
	return nil, true, true
}

// contractWriteKeys derives array keys from a modifies clause using dummy
// parameter values.
func (v *Verifier) contractWriteKeys(e *Enc, con *Contract, fn *ssa.Function) (keys []string, all bool, ghosts bool) {
	if con.Pure {
		return nil, false, false
	}
	scratch := newQuery(v.u)
	se := &Enc{v: v, q: scratch, u: v.u, oblCount: map[string]int{}, lastResTypes: map[string]types.Type{}}
	// share heap-sort declarations so keys are declared in the real query too
	st := scratch.entryState()
	vars := map[string]Value{}
	var pkg *types.Package
	if fn != nil {
		for _, p := range fn.Params {
			vars[p.Name()] = Value{term: "dummy", typ: p.Type()}
		}
		pkg = fn.Pkg.Pkg
	} else {
		vars["recv"] = Value{term: "dummy", typ: types.Universe.Lookup("any").Type()}
		pkg = v.pkgByPath[con.Pkg]
	}
	env := &SpecEnv{e: se, pkg: pkg, vars: vars, cur: st, where: "modifies of " + con.Header}
	var targets []modTarget
	var gs []string
	func() {
		defer func() {
			if r := recover(); r != nil {
				if se2, ok := r.(specError); ok {
					v.specErrors = append(v.specErrors, se2.msg)
					all = true
					return
				}
				panic(r)
			}
		}()
		targets, all, gs = se.modTargets(env, con)
	}()
	for _, t := range targets {
		keys = append(keys, t.key)
		// make sure the key is declared in the caller's query
		e.q.keySort(t.key)
	}
	return keys, all, len(gs) > 0 || all
}

// ---------------------------------------------------------------------------
// prelude

func (v *Verifier) prelude() string {
	var b strings.Builder
	b.WriteString(v.u.prelude())
	// interface well-formedness: constructor matches dynamic type tag
	b.WriteString("(define-fun iface_wf ((x Iface)) Bool (and true")
	for i, t := range v.u.tagTypes {
		c, _ := v.u.valCtor(t)
		fmt.Fprintf(&b, " (=> (= (itag x) %d) ((_ is %s) (ival x)))", i+1, c)
		if lo, hi, ok := intRange(t); ok {
			fmt.Fprintf(&b, " (=> (= (itag x) %d) (and (<= %s (vint (ival x))) (<= (vint (ival x)) %s)))", i+1, smtBig(lo), smtBig(hi))
		}
	}
	b.WriteString("))\n")
	for _, name := range v.funOrder {
		sig := v.funDecls[name]
		if n, ok := v.refNums[name]; ok {
			fmt.Fprintf(&b, "(define-fun %s () Int %d)\n", name, n)
			continue
		}
		fmt.Fprintf(&b, "(declare-fun %s %s)\n", name, sig)
	}
	// pseudo-references of embedded structs: negative, injective, rooted
	for _, name := range v.funOrder {
		if strings.HasPrefix(name, "fa_") {
			fmt.Fprintf(&b, "(assert (forall ((x Int)) (! (and (< (%[1]s x) 0) (= (inv_%[1]s (%[1]s x)) x) (= (broot (%[1]s x)) (ite (>= x 0) x (broot x)))) :pattern ((%[1]s x)))))\n", name)
		}
	}
	// implements-facts for known tags
	var ifn []string
	for n := range v.implFuns {
		ifn = append(ifn, n)
	}
	sort.Strings(ifn)
	for _, n := range ifn {
		it := v.implFuns[n].Underlying().(*types.Interface)
		for i, t := range v.u.tagTypes {
			if types.Implements(t, it) {
				fmt.Fprintf(&b, "(assert (%s %d))\n", n, i+1)
			} else {
				fmt.Fprintf(&b, "(assert (not (%s %d)))\n", n, i+1)
			}
		}
	}
	for _, d := range v.specDefs {
		b.WriteString(d)
		b.WriteString("\n")
	}
	return b.String()
}

// needSpecFun emits the SMT definition of a pure spec function once.
func (v *Verifier) needSpecFun(sf *SpecFunc, env *SpecEnv) {
	if v.specDone[sf.Name] {
		return
	}
	v.specDone[sf.Name] = true
	e := env.e
	scope := map[string]Value{}
	var params []string
	for _, p := range sf.Params {
		t := env.resolveType(p.Type)
		name := "p_" + sanitize(p.Name)
		so := e.u.sortOf(t)
		params = append(params, "("+name+" "+so+")")
		scope[p.Name] = Value{term: name, typ: t}
	}
	rt := env.resolveType(sf.Result)
	if sf.Uninterp {
		var sorts []string
		for _, p := range sf.Params {
			sorts = append(sorts, e.u.sortOf(env.resolveType(p.Type)))
		}
		v.specDefs = append(v.specDefs, fmt.Sprintf("(declare-fun spec_%s (%s) %s)", sf.Name, strings.Join(sorts, " "), e.u.sortOf(rt)))
		return
	}
	n := *env
	n.vars = scope
	n.bound = nil
	n.cur = nil
	n.old = nil
	n.where = "spec func " + sf.Name
	// reserve position so that dependencies are emitted first
	body := n.eval(sf.Body)
	kw := "define-fun"
	if sf.Rec {
		kw = "define-fun-rec"
	}
	v.specDefs = append(v.specDefs, fmt.Sprintf("(%s spec_%s (%s) %s %s)", kw, sf.Name, strings.Join(params, " "), e.u.sortOf(rt), body.term))
}

// ---------------------------------------------------------------------------
// per-function driver

type Unit struct {
	Fn       *ssa.Function
	Contract *Contract
	Q        *Query
	Obls     []*Obligation
	Covers   []*Obligation
	Notes    []string
	Err      string
	Inputs   []inputVar
	Enc      *Enc
	AutoObls []*Obligation
	Prelude  string
	Funs     map[string]bool
}

// verifyFunc generates the obligations of one function. con may be nil
// (safety sweep under precondition true).
func (v *Verifier) verifyFunc(fn *ssa.Function, con *Contract) *Unit {
	// Houdini over the automatic loop-frame candidates: encode, try to
	// prove each candidate at its back edges, drop the ones that fail and
	// re-encode until all remaining candidates are inductive.
	for round := 0; ; round++ {
		nerr := len(v.specErrors)
		u := v.verifyFuncOnce(fn, con)
		if len(u.AutoObls) == 0 || u.Err != "" || round >= 6 {
			if round >= 6 {
				// give up on the rest
				for _, o := range u.AutoObls {
					v.autoFrameOff[o.Expect] = true
				}
				v.specErrors = v.specErrors[:nerr]
				return v.verifyFuncOnce(fn, con)
			}
			return u
		}
		dir, err := os.MkdirTemp("", "govc-houdini-")
		if err != nil {
			return u
		}
		failed := 0
		type res struct {
			o  *Obligation
			ok bool
		}
		ch := make(chan res, len(u.AutoObls))
		sem := make(chan struct{}, 12)
		for i, o := range u.AutoObls {
			o.Name = fmt.Sprintf("autoframe%d", i)
			o.replayDone = true // no model terms: replayTerms touches shared tables
			sem <- struct{}{}
			go func(o *Obligation) {
				defer func() { <-sem }()
				exp := o.Expect
				o.Expect = ""
				p, _ := v.writeQuery(u, o, dir, "ALL", false)
				o.Expect = exp
				r := runSolver(context.Background(), solvers[0], p, 5)
				ch <- res{o, r.Verdict == "unsat"}
			}(o)
		}
		for range u.AutoObls {
			r := <-ch
			if !r.ok {
				if os.Getenv("GOVC_DEBUG_HOUDINI") != "" {
					fmt.Fprintln(os.Stderr, "houdini: dropped", r.o.Expect, "round", round)
				}
				if !v.autoFrameOff[r.o.Expect] {
					failed++
				}
				v.autoFrameOff[r.o.Expect] = true
			}
		}
		os.RemoveAll(dir)
		if failed == 0 {
			for _, o := range u.AutoObls {
				v.autoFrameKept[o.Expect] = true
			}
			return u
		}
		v.specErrors = v.specErrors[:nerr]
	}
}

// resetTables makes the SMT prelude (sorts, tags, declared symbols, spec
// function definitions) depend only on the unit being encoded, so that the
// query text of a unit is the same whatever else is verified in the run.
func (v *Verifier) resetTables() {
	v.u = newUniverse()
	v.funDecls = map[string]string{}
	v.funOrder = nil
	v.funcRefs = map[string]bool{}
	v.globalRefs = map[string]bool{}
	v.refNums = map[string]int{}
	v.implFuns = map[string]types.Type{}
	v.specDefs = nil
	v.specDone = map[string]bool{}
	v.opaqueDefs = map[string]*opaqueDef{}
	v.scratch = nil
}

func (v *Verifier) verifyFuncOnce(fn *ssa.Function, con *Contract) (unit *Unit) {
	v.resetTables()
	unit = &Unit{Fn: fn, Contract: con}
	q := newQuery(v.u)
	unit.Q = q
	e := &Enc{v: v, q: q, u: v.u, top: fn, oblCount: map[string]int{}, lastResTypes: map[string]types.Type{}, contract: con, curFn: fn}
	unit.Enc = e
	if con != nil {
		// result types of the callees whose last result is tracked
		for _, lr := range con.LastResults {
			for _, b := range fn.Blocks {
				for _, ins := range b.Instrs {
					c, ok := ins.(*ssa.Call)
					if !ok {
						continue
					}
					name := ""
					if c.Call.IsInvoke() {
						name = c.Call.Method.Name()
					} else if sc := c.Call.StaticCallee(); sc != nil {
						name = sc.Name()
					}
					if name != lr.Callee {
						continue
					}
					res := c.Call.Signature().Results()
					if lr.Res < res.Len() {
						e.lastResTypes[name] = res.At(lr.Res).Type()
					}
				}
			}
		}
	}
	defer func() {
		if r := recover(); r != nil {
			unit.Err = fmt.Sprint(r)
			if se, ok := r.(specError); ok {
				unit.Err = se.msg
			}
		}
		unit.Obls = e.obls
		unit.AutoObls = e.autoObls
		unit.Prelude = v.prelude()
		unit.Funs = map[string]bool{}
		for name := range v.funDecls {
			unit.Funs[name] = true
		}
		for name := range v.opaqueDefs {
			unit.Funs["op_"+name] = true
		}
		unit.Notes = q.notes
		unit.Inputs = e.inputs
	}()
	if fn.Blocks == nil {
		unit.Err = "no body"
		return
	}
	st := q.entryState()
	st.assume("(>= " + st.ap + " 10000)")
	fr := e.newFrame(fn, "")
	fr.con = con
	vars := map[string]Value{}
	for _, p := range fn.Params {
		val := e.freshValue(st, "in_"+p.Name(), p.Type())
		fr.vals[p] = val
		vars[p.Name()] = val
		e.inputs = append(e.inputs, inputVar{p.Name(), val})
	}
	for _, fv := range fn.FreeVars {
		val := e.freshValue(st, "fv_"+fv.Name(), fv.Type())
		if _, isPtr := fv.Type().Underlying().(*types.Pointer); isPtr {
			// a captured variable's cell always exists
			st.assume("(> " + val.term + " 0)")
		}
		fr.vals[fv] = val
		vars["&"+fv.Name()] = val
		if freeVarWrittenOnce(fn, fv, 0) {
			// the captured variable is assigned once, before the closure is
			// created, and never again: its cell is stable across sync points
			e.localRefs = append(e.localRefs, val.term)
		}
	}
	if con == nil && v.sweepMode {
		// zero-annotation sweep: the function is checked under the default
		// precondition that its pointer parameters (including the receiver)
		// are not nil (a nil pointer is never produced from client input; it
		// would be a defect of the caller)
		for _, p := range fn.Params {
			if _, isPtr := p.Type().Underlying().(*types.Pointer); isPtr {
				st.assume("(not (= " + fr.vals[p].term + " 0))")
			}
			if _, isIface := p.Type().Underlying().(*types.Interface); isIface {
				// an interface parameter never holds a typed nil pointer
				// (decoders and constructors build real objects)
				x := fr.vals[p].term
				st.assume("(=> ((_ is VRef) (ival " + x + ")) (or (= (itag " + x + ") 0) (not (= (vref (ival " + x + ")) 0))))")
				if defaultNonNilParam(p.Type()) {
					st.assume("(not (= (itag " + x + ") 0))")
				}
			}
		}
		for _, fv := range fn.FreeVars {
			// a captured variable that is assigned exactly once, before the
			// closure is created, with a value that is never nil (a make/new/
			// composite literal/closure, or a pointer parameter of the
			// declaring function, which that function's own sweep assumes
			// non-nil) is not nil when the closure runs
			if capturedNonNil(fn, fv, 0, true) {
				lv := e.loadPtr(st, fr.vals[fv], 0)
				switch e.u.sortOf(lv.typ) {
				case sortInt:
					st.assume("(not (= " + lv.term + " 0))")
				case sortIface:
					st.assume("(not (= (itag " + lv.term + ") 0))")
				}
			}
		}
	}
	if !(con == nil && v.sweepMode) {
		// captured variables initialised once with a make/new/literal value
		for _, fv := range fn.FreeVars {
			if capturedNonNil(fn, fv, 0, false) {
				lv := e.loadPtr(st, fr.vals[fv], 0)
				switch e.u.sortOf(lv.typ) {
				case sortInt:
					st.assume("(not (= " + lv.term + " 0))")
				case sortIface:
					st.assume("(not (= (itag " + lv.term + ") 0))")
				}
			}
		}
	}
	// captured variables by name (content of their cells at entry)
	pre := &SpecEnv{e: e, pkg: fn.Pkg.Pkg, vars: vars, cur: st, where: "requires of " + funcDisplayName(fn)}
	for _, fv := range fn.FreeVars {
		if _, isPtr := fv.Type().Underlying().(*types.Pointer); isPtr {
			vars[fv.Name()] = e.loadPtr(st, fr.vals[fv], 0)
		}
	}
	if con != nil {
		for _, r := range con.Requires {
			st.assume(e.evalClauseAssume(pre, r))
		}
		for _, r := range con.Captures {
			st.assume(e.evalClauseAssume(pre, r))
		}
		for _, r := range con.Assumes {
			st.assume(e.evalClauseAssume(pre, r))
			v.useTrusted("assume:" + con.Key + ":" + r.Label)
		}
	}
	entry := st.clone()
	e.entry = entry
	fr.entrySt = entry
	e.frameAllowed = map[string][]string{}
	e.frameWhole = map[string]bool{}
	if con != nil && con.HasMod {
		func() {
			defer func() {
				if r := recover(); r != nil {
					if _, ok := r.(specError); !ok {
						panic(r)
					}
				}
			}()
			env := *pre
			env.cur = entry
			targets, _, _ := e.modTargets(&env, con)
			for _, t := range targets {
				if t.idx == "" && t.freshOnly {
					continue // only cells allocated by this function: pre-existing cells are framed
				}
				if t.idx == "" {
					e.frameWhole[t.key] = true
				} else {
					e.frameAllowed[t.key] = append(e.frameAllowed[t.key], t.idx)
				}
			}
		}()
	}
	// vacuity: precondition must be satisfiable
	unit.Covers = append(unit.Covers, &Obligation{Name: funcDisplayName(fn) + "#cover[requires]", Kind: "cover", Func: funcDisplayName(fn), reach: entry.reach, cond: "false", NDecls: len(q.decls), Expect: "sat"})
	out, res := e.runBody(fr, st)
	unit.Covers = append(unit.Covers, &Obligation{Name: funcDisplayName(fn) + "#cover[return]", Kind: "cover", Func: funcDisplayName(fn), reach: out.reach, cond: "false", NDecls: len(q.decls), Expect: "sat"})
	if con != nil {
		// captured variables at exit
		pvars := map[string]Value{}
		for k, val := range vars {
			pvars[k] = val
		}
		for _, fv := range fn.FreeVars {
			if _, isPtr := fv.Type().Underlying().(*types.Pointer); isPtr {
				pvars[fv.Name()] = e.loadPtr(out, fr.vals[fv], 0)
			}
		}
		post := &SpecEnv{e: e, pkg: fn.Pkg.Pkg, vars: pvars, cur: out, old: entry, results: res, where: "ensures of " + funcDisplayName(fn)}
		// named results
		for i := 0; i < fn.Signature.Results().Len() && i < len(res); i++ {
			if n := fn.Signature.Results().At(i).Name(); n != "" && n != "_" {
				if _, clash := pvars[n]; !clash {
					pvars[n] = res[i]
				}
			}
		}
		if con.PerReturn && len(fr.rets) > 1 {
			// check the postconditions on each return path separately
			// (smaller, merge-free queries), then assume them on the merged state
			for _, arm := range fr.rets {
				ast := arm.st.clone()
				avars := map[string]Value{}
				for k, val := range pvars {
					avars[k] = val
				}
				for _, fv := range fn.FreeVars {
					if _, isPtr := fv.Type().Underlying().(*types.Pointer); isPtr {
						avars[fv.Name()] = e.loadPtr(ast, fr.vals[fv], 0)
					}
				}
				for i := 0; i < fn.Signature.Results().Len() && i < len(arm.vals); i++ {
					if n := fn.Signature.Results().At(i).Name(); n != "" && n != "_" {
						avars[n] = arm.vals[i]
					}
				}
				aenv := &SpecEnv{e: e, pkg: fn.Pkg.Pkg, vars: avars, cur: ast, old: entry, results: arm.vals, where: "ensures of " + funcDisplayName(fn) + " at " + e.pos(arm.pos)}
				e.exitLemmas(aenv, ast, con)
				for _, c := range con.Ensures {
					if len(con.UseLemmas) > 0 && strings.HasPrefix(c.Label, "delta") {
						continue
					}
					e.obligeClause(aenv, ast, "ensures", c, arm.pos)
				}
			}
			for _, c := range con.Ensures {
				out.assume(e.evalClauseAssume(post, c))
			}
		} else {
			e.exitLemmas(post, out, con)
			for _, c := range con.Ensures {
				if len(con.UseLemmas) > 0 && strings.HasPrefix(c.Label, "delta") {
					continue
				}
				e.obligeClause(post, out, "ensures", c, fn.Pos())
			}
		}
		if con.HasMod {
			e.frameCheck(pre, entry, out, con, fn)
		}
		for _, ls := range con.Loops {
			if !ls.bound {
				// force binding attempt (function without reaching the loop)
				e.loopSpecFor(fr, nil)
				if !ls.bound {
					e.oblige(out, "contract-binding", "loop "+ls.Selector, "false", fn.Pos())
				}
			}
		}
		for _, cs := range con.CallSites {
			if v.callsiteHits[con.Key+"/"+cs.Clause.Label] == 0 {
				e.oblige(out, "contract-binding", "callsite "+cs.Callee+":"+cs.Clause.Label+" matched no call", "false", fn.Pos())
			}
		}
		for _, cs := range con.SendSites {
			if v.callsiteHits[con.Key+"/"+cs.Clause.Label] == 0 {
				e.oblige(out, "contract-binding", "sendsite "+cs.Clause.Label+" matched no send", "false", fn.Pos())
			}
		}
	}
	return
}

// frameCheck: every pre-existing location outside the declared modifies set
// is unchanged at exit.
func (e *Enc) frameCheck(pre *SpecEnv, entry, out *State, con *Contract, fn *ssa.Function) {
	env := *pre
	env.cur = entry
	var targets []modTarget
	var all bool
	var ghosts []string
	func() {
		defer func() {
			if r := recover(); r != nil {
				if se, ok := r.(specError); ok {
					e.v.specErrors = append(e.v.specErrors, se.msg)
					all = true
					return
				}
				panic(r)
			}
		}()
		targets, all, ghosts = e.modTargets(&env, con)
	}()
	if all {
		return
	}
	allowed := map[string][]string{}
	whole := map[string]bool{}
	for _, t := range targets {
		if t.idx == "" && t.freshOnly {
			continue
		}
		if t.idx == "" {
			whole[t.key] = true
		} else {
			allowed[t.key] = append(allowed[t.key], t.idx)
		}
	}
	var keys []string
	for k := range e.q.heapSort {
		keys = append(keys, k)
	}
	sort.Strings(keys)
	for _, k := range keys {
		if whole[k] {
			continue
		}
		a, b := entry.get(k), out.get(k)
		if a == b {
			continue
		}
		r := e.q.freshBound("r")
		var ex []string
		for _, idx := range allowed[k] {
			ex = append(ex, "(not (= "+r+" "+idx+"))")
		}
		e.v.declFun("broot", "(Int) Int")
		cond := fmt.Sprintf("(forall ((%[1]s Int)) (=> %[2]s (= (select %[3]s %[1]s) (select %[4]s %[1]s))))", r, and(append(ex, "(< "+rootOf(r)+" "+entry.ap+")")...), a, b)
		e.oblige(out, "frame", k, cond, fn.Pos())
	}
	gset := map[string]bool{}
	for _, g := range ghosts {
		gset[g] = true
	}
	for _, g := range []string{ghostSendCount, ghostClosed} {
		if gset[g] {
			continue
		}
		a, b := e.ghostGet(entry, g), e.ghostGet(out, g)
		if a != b {
			r := e.q.freshBound("r")
			e.oblige(out, "frame", "ghost "+g, fmt.Sprintf("(forall ((%[1]s Int)) (=> (< %[1]s %[2]s) (= (select %[3]s %[1]s) (select %[4]s %[1]s))))", r, entry.ap, a, b), fn.Pos())
		}
	}
}

// writeQuery renders the SMT-LIB text for one obligation.
func (v *Verifier) writeQuery(u *Unit, o *Obligation, dir string, logic string, light bool) (string, error) {
	return v.writeQueryMode(u, o, dir, logic, map[bool]string{true: "light", false: "full"}[light])
}

func (v *Verifier) writeQueryMode(u *Unit, o *Obligation, dir string, logic string, mode string) (string, error) {
	light := mode == "light"
	var keep map[int]bool
	if mode == "focused" {
		funs := map[string]bool{}
		for name := range u.Funs {
			if strings.HasPrefix(name, "fa_") || strings.HasPrefix(name, "inv_fa_") || name == "broot" {
				continue
			}
			funs[name] = true
		}
		keep = u.Q.focusKeep(o, funs)
	}
	var b strings.Builder
	b.WriteString("(set-option :produce-models true)\n")
	if logic != "" {
		b.WriteString("(set-logic " + logic + ")\n")
	}
	if u.Prelude != "" {
		b.WriteString(u.Prelude)
	} else {
		b.WriteString(v.prelude())
	}
	for i, d := range u.Q.decls[:o.NDecls] {
		if light || (mode == "focused" && !keep[i]) {
			if name, ok := u.Q.quantDefs[i]; ok {
				b.WriteString("(assert " + name + ")\n")
				continue
			}
		}
		b.WriteString(d)
		b.WriteString("\n")
	}
	fmt.Fprintf(&b, "(assert %s)\n", o.reach)
	if o.cond != "false" {
		fmt.Fprintf(&b, "(assert (not %s))\n", o.cond)
	}
	b.WriteString("(check-sat)\n")
	if u.Enc != nil && u.Fn != nil && o.Expect != "sat" {
		mts := o.replayTerms
		if !o.replayDone {
			mts = v.replayTerms(u, o)
		}
		if len(mts) > 0 {
			b.WriteString("(get-value (")
			for _, mt := range mts {
				b.WriteString(mt.Term + " ")
			}
			b.WriteString("))\n")
		}
	}
	suffix := ".smt2"
	if light {
		suffix = ".light.smt2"
	}
	if mode == "focused" {
		suffix = ".focus.smt2"
	}
	path := filepath.Join(dir, sanitize(o.Name)+suffix)
	return path, os.WriteFile(path, []byte(b.String()), 0o644)
}

// globalInitNonNil: a package-level variable that is assigned exactly once,
// in its package initialiser, with a value that is never nil.
func (v *Verifier) globalInitNonNil(g *ssa.Global) bool {
	if r, ok := v.globNonNil[g]; ok {
		return r
	}
	res := false
	defer func() { v.globNonNil[g] = res }()
	init := g.Pkg.Func("init")
	if init == nil {
		return false
	}
	n := 0
	for fn := range v.allFuncs() {
		for _, b := range fn.Blocks {
			for _, ins := range b.Instrs {
				st, ok := ins.(*ssa.Store)
				if !ok || st.Addr != ssa.Value(g) {
					continue
				}
				if fn != init {
					return false
				}
				n++
				switch val := st.Val.(type) {
				case *ssa.MakeInterface, *ssa.Alloc, *ssa.MakeMap, *ssa.MakeChan, *ssa.MakeClosure, *ssa.Function:
				case *ssa.Call:
					sc := val.Common().StaticCallee()
					if sc == nil {
						return false
					}
					switch sc.String() {
					case "errors.New", "fmt.Errorf", "regexp.MustCompile":
					default:
						return false
					}
				default:
					return false
				}
			}
		}
	}
	res = n == 1
	return res
}

// exitLemmas: ensures clauses listed before a lemma application are checked
// first; the lemma instance is assumed for the remaining ones. To keep it
// simple the instances are assumed after the clauses labelled "delta-*".
func (e *Enc) exitLemmas(env *SpecEnv, st *State, con *Contract) {
	if len(con.UseLemmas) == 0 {
		return
	}
	// prove the delta clauses first
	for _, c := range con.Ensures {
		if strings.HasPrefix(c.Label, "delta") {
			e.obligeClause(env, st, "ensures", c, 0)
		}
	}
	for _, l := range con.UseLemmas {
		t, _ := e.lemmaInstance(env, l)
		st.assume(t)
	}
}

// freeVarWrittenOnce: the variable captured as fv by closure fn is initialised
// by a single store in the function that declares it and is only read
// afterwards, by that function and by every closure capturing it.
func freeVarWrittenOnce(fn *ssa.Function, fv *ssa.FreeVar, depth int) bool {
	p := fn.Parent()
	if p == nil || depth > 3 {
		return false
	}
	idx := -1
	for i, f := range fn.FreeVars {
		if f == fv {
			idx = i
		}
	}
	if idx < 0 {
		return false
	}
	found := false
	for _, b := range p.Blocks {
		for _, ins := range b.Instrs {
			mc, ok := ins.(*ssa.MakeClosure)
			if !ok || mc.Fn != ssa.Value(fn) || idx >= len(mc.Bindings) {
				continue
			}
			found = true
			switch bv := mc.Bindings[idx].(type) {
			case *ssa.Alloc:
				if !allocWrittenOnce(bv) && !allocStableAfter(bv, mc) {
					return false
				}
			case *ssa.FreeVar:
				if !freeVarWrittenOnce(p, bv, depth+1) {
					return false
				}
			default:
				return false
			}
		}
	}
	return found
}

func allocWrittenOnce(a *ssa.Alloc) bool {
	refs := a.Referrers()
	if refs == nil {
		return false
	}
	stores := 0
	for _, r := range *refs {
		switch x := r.(type) {
		case *ssa.Store:
			if x.Addr != ssa.Value(a) {
				return false
			}
			stores++
			// the initialising store must precede everything else: same block as the alloc
			if x.Block() != a.Block() {
				return false
			}
		case *ssa.UnOp:
			if x.Op != token.MUL {
				return false
			}
		case *ssa.DebugRef:
		case *ssa.MakeClosure:
			fn := x.Fn.(*ssa.Function)
			for i, b := range x.Bindings {
				if b == ssa.Value(a) && !freeVarReadOnly(fn.FreeVars[i], 0) {
					return false
				}
			}
		default:
			return false
		}
	}
	if stores > 1 {
		return false
	}
	// the store precedes every capture that happens in the same block
	seenClosure := false
	for _, ins := range a.Block().Instrs {
		switch x := ins.(type) {
		case *ssa.MakeClosure:
			for _, b := range x.Bindings {
				if b == ssa.Value(a) {
					seenClosure = true
				}
			}
		case *ssa.Store:
			if x.Addr == ssa.Value(a) && seenClosure {
				return false
			}
		}
	}
	return true
}

// capturedNonNil: see the comment at its use in verifyFuncOnce.
func capturedNonNil(fn *ssa.Function, fv *ssa.FreeVar, depth int, allowParams bool) bool {
	p := fn.Parent()
	if p == nil || depth > 3 || !freeVarWrittenOnce(fn, fv, 0) {
		return false
	}
	idx := -1
	for i, f := range fn.FreeVars {
		if f == fv {
			idx = i
		}
	}
	ok := false
	for _, b := range p.Blocks {
		for _, ins := range b.Instrs {
			mc, isMC := ins.(*ssa.MakeClosure)
			if !isMC || mc.Fn != ssa.Value(fn) || idx < 0 || idx >= len(mc.Bindings) {
				continue
			}
			switch bv := mc.Bindings[idx].(type) {
			case *ssa.Alloc:
				refs := bv.Referrers()
				if refs == nil {
					return false
				}
				found := false
				for _, r := range *refs {
					st, isStore := r.(*ssa.Store)
					if !isStore || st.Addr != ssa.Value(bv) {
						continue
					}
					if !nonNilProducer(st.Val, allowParams) {
						return false
					}
					found = true
				}
				if !found {
					return false
				}
				ok = true
			case *ssa.FreeVar:
				if !capturedNonNil(p, bv, depth+1, allowParams) {
					return false
				}
				ok = true
			default:
				return false
			}
		}
	}
	return ok
}

func nonNilProducer(v ssa.Value, allowParams bool) bool {
	switch x := v.(type) {
	case *ssa.MakeChan, *ssa.MakeMap, *ssa.Alloc, *ssa.MakeClosure, *ssa.Function, *ssa.MakeSlice:
		return true
	case *ssa.Parameter:
		_, isPtr := x.Type().Underlying().(*types.Pointer)
		return isPtr && allowParams
	case *ssa.MakeInterface:
		return true
	}
	return false
}

// defaultNonNilParam: parameter types whose values are, by the sweep's default
// precondition, not nil: pointers, and interfaces other than error and the
// empty interface (asserted at the call sites of functions without contract,
// assumed inside them).
func defaultNonNilParam(t types.Type) bool {
	switch u := t.Underlying().(type) {
	case *types.Pointer:
		return true
	case *types.Interface:
		if u.NumMethods() == 0 {
			return false
		}
		if n, ok := types.Unalias(t).(*types.Named); ok && n.Obj().Pkg() == nil && n.Obj().Name() == "error" {
			return false
		}
		return true
	}
	return false
}

// allocStableAfter: no store to the variable can execute after the closure mc
// has been created (every store lies on paths before the capture only), its
// address does not escape otherwise, and every closure capturing it only reads it.
func allocStableAfter(a *ssa.Alloc, mc *ssa.MakeClosure) bool {
	refs := a.Referrers()
	if refs == nil {
		return false
	}
	var stores []*ssa.Store
	for _, r := range *refs {
		switch x := r.(type) {
		case *ssa.Store:
			if x.Addr != ssa.Value(a) {
				return false
			}
			stores = append(stores, x)
		case *ssa.UnOp:
			if x.Op != token.MUL {
				return false
			}
		case *ssa.DebugRef:
		case *ssa.MakeClosure:
			fn := x.Fn.(*ssa.Function)
			for i, b := range x.Bindings {
				if b == ssa.Value(a) && !freeVarReadOnly(fn.FreeVars[i], 0) {
					return false
				}
			}
		default:
			return false
		}
	}
	// blocks reachable from the point just after mc
	reach := map[*ssa.BasicBlock]bool{}
	var stack []*ssa.BasicBlock
	for _, s := range mc.Block().Succs {
		stack = append(stack, s)
	}
	for len(stack) > 0 {
		b := stack[len(stack)-1]
		stack = stack[:len(stack)-1]
		if reach[b] {
			continue
		}
		reach[b] = true
		stack = append(stack, b.Succs...)
	}
	for _, st := range stores {
		if reach[st.Block()] {
			return false
		}
		if st.Block() == mc.Block() {
			// same block: the store must come before the capture
			after := false
			for _, ins := range mc.Block().Instrs {
				if ins == ssa.Instruction(mc) {
					after = true
				}
				if ins == ssa.Instruction(st) && after {
					return false
				}
			}
		}
	}
	return true
}

// needPow2 declares pow2 : Int -> Int with pow2(s) = 2^s for 0 <= s <= 63 (0 elsewhere).
func (v *Verifier) needPow2() {
	if v.specDone["__pow2"] {
		return
	}
	v.specDone["__pow2"] = true
	body := "0"
	for i := 63; i >= 0; i-- {
		body = fmt.Sprintf("(ite (= s %d) %s %s)", i, pow2(int64(i)), body)
	}
	v.specDefs = append(v.specDefs, "(define-fun pow2 ((s Int)) Int "+body+")")
}
