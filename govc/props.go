package main

import (
	"context"
	"fmt"
	"os"
	"strings"
)

// Per-property configuration: sweep scopes, level, explanation.
var propConfigs = map[string]propConfig{
	"C01": {ID: "C01", Level: "proof", Structural: []string{"immutable-fields", "owned-writes", "owned-calls"},
		Explain: "Broker routing: the broker's tables are related by a data-structure invariant (brokerInv/brokerIndex/brokerOwn) preserved by every sync* function; per-operation postconditions over the abstract membership view give who is attempted, how often and with what content, for every table, option dictionary and number of sessions.",
		Assume: []string{
			"distinct sessions have distinct send channels (chanInj), assumed in syncPubEvent/syncPublish",
			"fewer than 2^53 subscriptions are created per realm (idsFresh: the id generator has not wrapped)",
			"broker state is confined to the broker goroutine: sync* functions run as atomic actions (checked structurally where claimed, C07/C11)",
			"composition of per-subscription exactly-once (syncPubEvent) with once-per-matching-subscription (syncPublish) into the per-session statement is a paper step",
			"an attempt is recorded whether or not the peer's queue accepted the message (a blocked peer loses messages: C07)",
		}},
	"C02": {ID: "C02", Level: "proof", Structural: []string{"immutable-fields", "owned-writes", "owned-calls"},
		Explain: "Dealer call bookkeeping: calls / invocations / invocationByCall are related by an invariant (callsA/B/C) preserved by syncCall, syncYield, syncError, syncCancel and syncRemoveSession; per-operation postconditions state when a call is finished (entries removed) and call-site / send-site universals state that every RESULT/ERROR goes to the call's own caller with the call's request id.",
		Assume: []string{"invocation ids have not wrapped (noIdWrap) and session ids are unique (uniqueSessionIDs)", "context.CancelFunc values (timerCancel) do not touch dealer state", "timer goroutine timing is not decided (trusted context.WithTimeout)", "exactly-once over a whole history is the induction over the per-action postconditions (paper step)"}},
	"C03": {ID: "C03", Level: "proof", Structural: []string{"immutable-fields", "owned-writes", "owned-calls"},
		Explain: "Dealer routing: best-match lookup (exact, longest prefix, wildcard) proved against a spec over all tables; callee selection per policy, INVOCATION content, fresh invocation ids, registration sharing rules and removal proved as postconditions / send-site universals over the registration invariant (dealerInv, dealerIndex).",
		Assume: []string{"registration ids and invocation ids have not wrapped", "session ids are unique", "math/rand Int63n(n) returns a value in [0,n)"}},
	"C05": {ID: "C05", Level: "proof", Structural: []string{"immutable-fields", "owned-writes", "owned-calls"},
		Explain: "Session removal: broker.syncRemoveSession and dealer.syncRemoveSession are proved to leave no membership, registration, served invocation or own call of the session, preserving all invariants; refused calls leave no entry (syncCall).",
		Assume: []string{"that onLeave is reached for every way a transport can die is not decided here"}},
	"C12": {ID: "C12", Level: "proof",
		Explain: "Disclosure and independence: prepareEvent builds fresh details per recipient and discloses the publisher only when requested, allowed and supported; syncCall discloses the caller only under the registration's or caller's request with the realm's permission; publish refuses a disallowed disclose_me.",
		Assume: []string{"session meta events / session.get transport-auth stripping are covered only by the sweep (C04)"}},
	"C13": {ID: "C13", Level: "proof",
		Explain: "CANCEL state machine (syncCancel) proved by cases on mode and callee feature, including no-effect cases; mode validation in cancel; timeout forwarding condition in syncCall; the timer action performs a killnowait cancel with wamp.error.timeout.",
		Assume: []string{"context.WithTimeout fires neither early nor late (trusted)", "overflow of time.Duration(timeout)*time.Millisecond for timeouts above ~292 years is not excluded"}},
	"C18": {ID: "C18", Level: "proof",
		Explain: "Meta events returned by syncRegister/syncUnregister/syncRemoveSession and sent by syncPubSubMeta; regMatch uses the same best-match function as routing.",
		Assume: []string{}},
	"C20": {ID: "C20", Level: "proof",
		Explain: "Event history: syncSaveEvent keeps at most limit entries dropping the oldest, syncPubEvent saves exactly the unrestricted publications with id, arguments and subscription, independent of subscribers. Of the query's filters the topic filter is proved (loop invariant: every returned event carries the asked topic).",
		Assume: []string{"github.com/gammazero/deque is a sequence ADT (PushBack/PopFront/Len/At)"}},
	"C04": {ID: "C04", Level: "proof", SafetyOnly: true,
		Sweep: []string{repoMod + "/router.", repoMod + "/wamp.", repoMod + "/router/auth.", repoMod + "/transport."},
		SweepSkip: sweepSkipC04,
		Explain: "Zero-annotation safety sweep: for every function of router, wamp, router/auth and transport the generator emits, without any annotation, an obligation for each failed type assertion, index or slice out of range, nil map store, nil dereference, nil function or interface call, division by zero, explicit panic and close of a nil channel that the function could execute; messages from peers are arbitrary (any of the message structs with any Dict/List content of any dynamic types). Functions under contract for other properties contribute their safety obligations; their functional clauses are assumed here and proved by those properties' checks.",
		Assume: []string{
			"functions without contract are checked under the default precondition that pointer parameters and receivers are not nil (a nil pointer is never produced from client input)",
			"values received from channels satisfy the declared channel-value invariants (checked at every send in a verified function); values in maps with a declared value invariant likewise",
			"data races, deadlocks and goroutine leaks are not decided (only sequential panic freedom per function)",
			"external code (gorilla/websocket, ugorji codec, net/http, reflect) is trusted not to panic outwards",
			"no map holds more than 2^62 entries",
		}},
	"C17": {ID: "C17", Level: "proof", SafetyOnly: true,
		Sweep:     []string{repoMod + "/client."},
		SweepSkip: sweepSkipC17,
		Explain: "Zero-annotation safety sweep of the client package plus contracts where context is needed: every function that processes what the router sends (run, runReceiveFromRouter, runHandleEvent, runHandleInvocation and its goroutines, runHandleInterrupt, runSignalReply, joinRealm, handleCRAuth, waitForReply*, prepareCallResultMessage, the payload-passthru unpackers, the blocking API calls that interpret replies) has one obligation per possible panic, discharged for arbitrary router messages: any message type with any details/arguments of any dynamic type. One hang clause beyond panic freedom: every send of the invocation goroutine to the router is a select case that also watches the client's context.",
		Assume: []string{
			"functions without contract: pointer parameters/receivers and method-bearing interface parameters (other than error) are not nil; the latter is asserted at every call site of such a function",
			"application-supplied values are well-formed: handlers and callbacks passed to Subscribe/Register/Call are functions, contexts are not nil (contracts on the API entry points)",
			"messages received from a peer are real messages (channel invariant checked at every send in a verified function; the remote transports' deserializers are trusted to return a message or an error)",
			"hangs, goroutine leaks, Close() returning and timing coincidences are not decided",
		}},
	"C15": {ID: "C15", Level: "proof",
		Bounded: []boundedCheck{{Name: "transport.bytesToInt", Pkg: "transport", Source: "transport_bytestoint_test.go.txt", Target: "verif_bounded_bytestoint_test.go", Run: "^TestBoundedBytesToInt$", Bound: "len(b) == 3, all 2^24 inputs; round trip with intToBytes for all 24-bit lengths", Stands: "bytesToInt#ensures[big-endian-24] (trusted in the deductive part)"}},
		Explain: "Rawsocket framing and handshake under contract: intToBytes encodes a 24-bit length big-endian (proved), byteToLength/fitRecvLimit implement the 2^(9+n) length code and pick the least code that fits (proved with a loop invariant), sendHandler writes header {0, L2, L1, L0} with the exact length followed by exactly the serialised bytes or nothing (oversized for the peer's announced limit or the 24-bit field, or unserialisable), recvHandler decodes only type-0 frames within its own announced limit, forwards only decoded messages, answers PING with a PONG header of the same length and copies exactly that many bytes, and ends the connection on oversized or reserved-type frames; serverHandshake/clientHandshake create a peer only for a well-formed exchange, with the negotiated serializer and both length limits. Send loops: the rawsocket sender returns only when the peer is closed; the websocket send loops return only after a failed connection write, keep-alive expiry or close (return-site universals over the lastresult/selected ghosts), so an unserialisable message is dropped alone.",
		Assume: []string{"net.Conn, io.ReadFull and io.CopyN behave as documented (trusted models); the serializers return bytes / a message or an error (interface contracts; codecs are third-party)", "bytesToInt is covered by a bounded exhaustive check, not by proof (listed under bounded)", "websocket framing (gorilla) and the 'same behaviour over every transport' half of the property are not covered", "concurrent interleaving of the PONG written by recvHandler with frames written by sendHandler on the same connection is not decided"}},
	"C16": {ID: "C16", Level: "proof",
		Explain: "Sequential core of reply routing in the client: a reply is offered only on the channel registered under the request id the reply itself carries (runReceiveFromRouter call-site universal + runSignalReply send-site universal), and a waiter gets a real message or an error; on context cancellation a CANCEL naming this call is sent to the router. Callee side: the kill switch stored under an invocation's request id cancels the context recorded for that invocation (cancellation relation of the context package), and every send of the invocation goroutine to the router gives way to the client's own context.",
		Assume: []string{"schedule-dependent parts (progress handler never after return, replies coinciding with timeouts, handler serialisation) are not decided", "context.Context.Err() is non-nil once Done() has fired (listed assumption)"}},
	"C07": {ID: "C07", Level: "other", Structural: []string{"nonblocking", "no-blocking-peer-send"},
		Explain: "Effect contract 'nonblocking' on every function that runs on the broker or dealer goroutine (sync*, trySend, prepareEvent, meta-event builders): checked on the SSA and call graph - no blocking send, receive or select on any path including in-place callees, so every send to a peer from there is a select with default; the in-process router-to-client queue is created with exactly the configured capacity (LinkedPeersQSize postcondition).",
		Assume: []string{"deadlock freedom and 'eventually processed' are not decided: wait-for cycles between goroutines are not a per-function property", "the rawsocket/websocket peers' queue creation is not under contract (only the in-process peer is)"}},
	"C09": {ID: "C09", Level: "proof",
		Explain: "Attach path: AttachClient sends WELCOME and calls handleSession only after authClient returned without error under the router-assigned session id; the session's identity details come from the router (session id) and the authenticator's WELCOME; authClient returns a welcome only for an in-process peer without required local authentication or when an authenticator registered for an offered method accepted; each built-in authenticator returns a welcome only if the key store vouches (AlreadyAuth) or the response verifies against the challenge issued in this very handshake (wampcra: crsign.VerifySignature over the issued challenge string; ticket: equal to the stored ticket; cryptosign: valid signature whose opened message equals the issued challenge bytes).",
		Assume: []string{"unforgeability and nonce freshness are cryptographic assumptions (crypto/rand, HMAC-SHA256, ed25519 via nacl/sign.Open are trusted)", "third-party Authenticator / KeyStore implementations are represented by their interface contracts", "peers deliver well-formed messages (a typed nil pointer is never delivered): recvsite assumption"}},
	"C10": {ID: "C10", Level: "proof",
		Explain: "Authorization gate: every dispatch call in handleInboundMessages (broker.publish/subscribe/unsubscribe, dealer.call/cancel/yield/register/unregister/error) is reached only if there is no authorizer, the sender is the meta session, or authzMessage returned true for this very message; authzMessage returns true exactly when the peer is in-process and local authorization is off or Authorize returned true, and otherwise sends exactly one ERROR with the message's type, request id and not_authorized / authorization_failed (none for an unacknowledged PUBLISH) and sends nothing when it allows. The authorization settings of a realm created from the router's template are the template's (newRealm postcondition, addRealm and AttachClient call-site universals).",
		Assume: []string{"Authorizer.Authorize is an uninterpreted function of (authorizer, session id, session details, message) that may rewrite dictionaries", "peers deliver well-formed messages (recvsite assumption)"}},
	"C11": {ID: "C11", Level: "proof", Structural: []string{"immutable-fields", "owned-writes", "owned-calls", "no-mutable-globals", "mapinv-writes"},
		Explain: "Realm separation: a session is attached only to the realm registered under the HELLO's realm URI (closure of AttachClient on the router goroutine) and authenticated by that same realm; addRealm registers a realm under its own URI; every message of a session is dispatched to the broker and dealer of the realm that handles the session; broker/dealer/realm state is written only by functions running on the owning component (structural ownership checks) and no package-level variable of the router is written after initialisation. The serializer types are declared stateless (all fields immutable): one instance per subprotocol is shared by all websocket connections of all realms.",
		Assume: []string{"freshness of broker/dealer objects per realm follows from newRealm allocating them (constructor postconditions), composition over the router's history is a paper step"}},
	"C19": {ID: "C19", Level: "proof",
		Explain: "URI validation, matching and id generation: the real wamp functions are verified against reference languages/spec functions built from the property statement, for all strings (SMT alphabet) and all 64-bit values.",
		Assume: []string{
			"regexp.(*Regexp).MatchString(s) is membership of s in the language of the pattern literal read from the package initialiser (translated mechanically with regexp/syntax)",
			"strings.Split(s, sep) returns the components comp(s,sep,0..ncomp-1); the meaning of 'component' is that of strings.Split",
		}},
}

// runLemmas proves the lemmas tagged with the property.
func (v *Verifier) runLemmas(prop, dir string, quickT, longT int) []oblResult {
	var out []oblResult
	for _, lm := range v.db.Lemmas {
		if !containsStr(lm.Props, prop) {
			continue
		}
		u := v.lemmaUnit(lm)
		for _, e := range v.specErrors {
			_ = e
		}
		rs := runUnits(v, []*Unit{u}, dir, quickT, longT, false, false)
		out = append(out, rs...)
	}
	return out
}

func (v *Verifier) lemmaUnit(lm *Lemma) (unit *Unit) {
	v.resetTables()
	q := newQuery(v.u)
	e := &Enc{v: v, q: q, u: v.u, oblCount: map[string]int{}, noSide: true}
	unit = &Unit{Q: q, Enc: e}
	defer func() {
		if r := recover(); r != nil {
			unit.Err = fmt.Sprint(r)
			if se, ok := r.(specError); ok {
				unit.Err = se.msg
			}
			v.specErrors = append(v.specErrors, "lemma "+lm.Name+": "+unit.Err)
		}
		unit.Obls = e.obls
		unit.Prelude = v.prelude()
		unit.Funs = map[string]bool{}
		for name := range v.funDecls {
			unit.Funs[name] = true
		}
		for name := range v.opaqueDefs {
			unit.Funs["op_"+name] = true
		}
	}()
	st := q.entryState()
	st.assume("(>= " + st.ap + " 10000)")
	e.entry = st.clone()
	pkg := v.pkgByPath[lm.Pkg]
	env := &SpecEnv{e: e, pkg: pkg, vars: map[string]Value{}, cur: st, old: e.entry, where: "lemma " + lm.Name}
	for _, p := range lm.Params {
		t := env.resolveType(p.Type)
		val := e.freshValue(st, "lm_"+p.Name, t)
		env.vars[p.Name] = val
	}
	// two-state lemma: the current state is an arbitrary successor of the
	// old state (every mutable heap array and ghost is fresh); old(...) in
	// hypotheses and conclusions refers to the state before.
	e.entry = st.clone()
	env.old = e.entry
	st.havocAll(nil, nil)
	for _, k := range []string{ghostSendCount, ghostClosed} {
		e.ghostGet(st, k)
		st.ghost[k] = e.q.fresh("gh_"+k, e.q.ghostSort(k))
	}
	for _, h := range lm.Hyps {
		st.assume(e.evalClause(env, h))
	}
	for _, c := range lm.Concl {
		t := e.evalClause(env, c)
		name := fmt.Sprintf("lemma %s#concl[%s]", lm.Name, c.Label)
		o := &Obligation{Name: name, Kind: "lemma", Func: "lemma " + lm.Name, reach: st.reach, cond: t}
		e.obls = append(e.obls, o)
		st.assume(t)
		o.NDecls = len(q.decls)
	}
	return
}

func (v *Verifier) runStructural(cfg propConfig) []structResult {
	var out []structResult
	for _, name := range cfg.Structural {
		if f, ok := structuralChecks[name]; ok {
			out = append(out, f(v)...)
		}
	}
	return out
}

var structuralChecks = map[string]func(v *Verifier) []structResult{}

func cmdReplay(args []string) {
	if len(args) < 1 {
		fmt.Fprintln(os.Stderr, "usage: govc replay <replay.json>")
		os.Exit(2)
	}
	data, err := os.ReadFile(args[0])
	if err != nil {
		fmt.Fprintln(os.Stderr, err)
		os.Exit(2)
	}
	fmt.Println(string(data))
	_ = context.Background
	_ = strings.TrimSpace
}

// Functions left out of the C04 sweep, with the reason.
var sweepSkipC04 = []string{
	// configuration-time API (operator input, not client input)
	"router.NewRouter", "router.NewWebsocketServer", "router.NewRawSocketServer", "(*github.com/gammazero/nexus/v3/router.router).logMemStats",
	// HTTP / websocket / rawsocket server glue: depends on net/http and gorilla objects outside the model
	"router.WebsocketServer)", "router.RawSocketServer)", "router.checkOrigin", "router.protocol",
	// client-side connection set-up of the transports (URLs, TLS configuration, dialers)
	"transport.ConnectRawSocketPeer", "transport.ConnectWebsocketPeer",
	// package initialisers
	".init",
}

var sweepSkipC17 = []string{
	// connection set-up from application configuration (URLs, TLS, cookies)
	"client.ConnectNet", "client.ConnectLocal", "client.CookieURL",
	// packing of the application's own payload-passthru options
	"client.packE2EEPayload", "client.packPPTPayload",
	// sender of the application's own progressive call chunks (application-supplied options and callback)
	"client.Client).CallProgressive$2",
	".init",
}
