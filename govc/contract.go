package main

// Contract files: structured //@ comments in /repo/<pkg>/verif_contracts.go.

import (
	"fmt"
	"os"
	"strings"
	"unicode"
)

type Clause struct {
	Label string
	Src   string
	Expr  *Expr
	Line  int
	File  string
}

type LoopSpec struct {
	Selector   string // source text of range operand / condition
	Ordinal    int    // 1-based among loops with equal selector (0 = unique)
	Invariants []*Clause
	Line       int
	bound      bool
}

type CallSiteSpec struct {
	Callee   string // function name pattern
	Clause   *Clause
	UseLemma bool // the clause is a lemma application: its instance is assumed here
	Assume   bool // the clause is assumed at this site (an explicit, listed assumption)
	// AssumeAfter: the clause (over `result`) is assumed right after the call
	// returns (an explicit, listed assumption about the callee's result)
	AssumeAfter bool
}

// RecvSiteSpec: what is known at a channel receive. Either an assumption
// about the received value `m` (listed in evidence), or a list of local
// variables (living in heap cells because a closure captures them) that no
// other goroutine writes any more once a receive has returned.
type RecvSiteSpec struct {
	Clause *Clause
	Stable []string
	Elem   string // optional: element type of the channels the clause is about
}

// MapInv: an invariant of the values stored in every map of a given type,
// checked at every MapUpdate under contract and assumed at lookups/ranges.
type MapInv struct {
	TypeText string
	Clause   *Clause
	Pkg      string
	File     string
	Line     int
}

type Contract struct {
	Key        string // binding key: pkgpath.(recv).name
	Header     string
	File       string
	Line       int
	Pkg        string
	Requires   []*Clause
	Ensures    []*Clause
	Modifies   []string // raw modifies items
	HasMod     bool
	Pure       bool
	Trusted    bool // contract assumed, body not verified
	Inline     bool
	MayPanic   bool
	On         string // owner component (broker / dealer / realm)
	Loops      []*LoopSpec
	CallSites  []*CallSiteSpec
	SendSites  []*CallSiteSpec
	Nonblock   bool
	Props      []string // properties this contract serves (optional tag)
	NoSweep    bool
	Assumes    []*Clause // assumptions on entry with a stated reason (listed in evidence)
	Dispatch   bool      // interface method: dispatch over implementations
	bound      bool
	Decreases  string
	LabelProps map[string][]string
	CallCounts []CallCount
	// LastResults: callees whose most recent result (index Res) is kept as a ghost
	LastResults []LastResult
	Captures   []*Clause // facts about captured variables, checked where the closure is created
	DynPure    bool      // calls of function values are assumed not to touch modelled state
	PerReturn  bool      // postconditions are checked at every return statement separately
	UseLemmas  []*Clause // lemma instances assumed at exit (the lemma itself is proved separately)
	ReturnSites []*Clause      // clauses over locals and results, checked at every return statement
	RecvSites   []*RecvSiteSpec
	// Partial: only the contract-level clauses of this function are claimed;
	// its run-time safety obligations (nil dereference, callee preconditions,
	// ...) are assumed, not proved, and listed as such in evidence.
	Partial bool
}

// CallCount declares a ghost counter: number of calls of Callee made by the
// function under contract, per value of argument Arg (0-based, receiver first).
type LastResult struct {
	Callee string
	Res    int
}

type CallCount struct {
	Callee string
	Arg    int
	Iface  bool // the counted argument is an interface value
}

type SpecFunc struct {
	Name   string
	Params []qvar
	Result string // type text
	Body   *Expr
	Src    string
	Macro  bool // heap-dependent predicate: expanded inline
	Uninterp bool
	Opaque   bool // heap-dependent predicate kept as an uninterpreted symbol with a triggered definition
	Rec    bool
	File   string
	Line   int
	Pkg    string
}

// ImmutableDecl: fields written only while their object is being constructed.
type ImmutableDecl struct {
	Pkg, Type string
	Fields    []string // "*" = all
	Line      int
	File      string
}

type FieldInv struct {
	Pkg, Type, Field string
	Clause           *Clause
}

type ContractDB struct {
	FieldInvs []*FieldInv
	MapInvs   []*MapInv
	ChanInvs  []*MapInv // invariants of the values sent on channels of a given element type
	Immutable []ImmutableDecl
	SliceNorm []ImmutableDecl // slice-typed fields whose stored value always has offset 0
	Funcs  map[string]*Contract
	Specs  map[string]*SpecFunc
	Owned  map[string]string // struct type (pkg.Name) -> component
	Files  []string
	Errors []string
	Lemmas []*Lemma
	Ifaces map[string]*Contract // interface method contracts: pkg.Iface.Method
	order  []*Contract
}

type Lemma struct {
	Name   string
	Params []qvar
	Hyps   []*Clause
	Concl  []*Clause
	Pkg    string
	File   string
	Line   int
	Props  []string
}

func newContractDB() *ContractDB {
	return &ContractDB{Funcs: map[string]*Contract{}, Specs: map[string]*SpecFunc{}, Owned: map[string]string{}, Ifaces: map[string]*Contract{}}
}

var clauseKeywords = map[string]bool{
	"func": true, "closure": true, "requires": true, "ensures": true, "modifies": true, "pure": true,
	"loop": true, "invariant": true, "trusted": true, "spec": true, "pred": true, "owned": true,
	"on": true, "inline": true, "maypanic": true, "nonblocking": true, "callsite": true, "sendsite": true,
	"props": true, "nosweep": true, "assume": true, "iface": true, "lemma": true, "hyp": true, "concl": true,
	"dispatch": true, "end": true, "fieldinv": true, "callcount": true, "lastresult": true, "captures": true, "dyncalls-pure": true, "immutable": true, "slicenorm": true, "opaque": true, "perreturn": true, "uselemma": true,
	"returnsite": true, "recvsite": true, "mapinv": true, "partial": true, "chaninv": true,
}

// parseContractFile reads one contract file. pkgPath is the import path of
// the package the file belongs to; pkgName its name.
func (db *ContractDB) parseContractFile(path, pkgPath string) {
	data, err := os.ReadFile(path)
	if err != nil {
		db.Errors = append(db.Errors, err.Error())
		return
	}
	db.Files = append(db.Files, path)
	type item struct {
		kw   string
		text string
		line int
	}
	var items []item
	for i, ln := range strings.Split(string(data), "\n") {
		t := strings.TrimSpace(ln)
		if !strings.HasPrefix(t, "//@") {
			continue
		}
		t = strings.TrimSpace(t[3:])
		if t == "" || strings.HasPrefix(t, "#") {
			continue
		}
		kw := t
		rest := ""
		if j := strings.IndexFunc(t, unicode.IsSpace); j >= 0 {
			kw, rest = t[:j], strings.TrimSpace(t[j:])
		}
		if clauseKeywords[kw] {
			items = append(items, item{kw, rest, i + 1})
		} else if len(items) > 0 {
			items[len(items)-1].text += " " + t
		} else {
			db.Errors = append(db.Errors, fmt.Sprintf("%s:%d: stray contract line", path, i+1))
		}
	}
	var cur *Contract
	var curLoop *LoopSpec
	var curLemma *Lemma
	mkClause := func(it item) *Clause {
		c := &Clause{Src: it.text, Line: it.line, File: path}
		s := strings.TrimSpace(it.text)
		if strings.HasPrefix(s, "[") {
			if j := strings.Index(s, "]"); j > 0 {
				c.Label = strings.TrimSpace(s[1:j])
				s = strings.TrimSpace(s[j+1:])
			}
		}
		c.Src = s
		ex, err := parseExpr(s)
		if err != nil {
			db.Errors = append(db.Errors, fmt.Sprintf("%s:%d: %v in %q", path, it.line, err, s))
			return nil
		}
		c.Expr = ex
		if c.Label == "" {
			c.Label = fmt.Sprintf("L%d", it.line)
		}
		return c
	}
	for _, it := range items {
		switch it.kw {
		case "func", "closure", "iface":
			cur = &Contract{Header: it.kw + " " + it.text, File: path, Line: it.line, Pkg: pkgPath}
			curLoop = nil
			curLemma = nil
			key, err := contractKey(it.kw, it.text, pkgPath)
			if err != nil {
				db.Errors = append(db.Errors, fmt.Sprintf("%s:%d: %v", path, it.line, err))
				cur = nil
				continue
			}
			cur.Key = key
			if it.kw == "iface" {
				db.Ifaces[key] = cur
			} else {
				if _, dup := db.Funcs[key]; dup {
					db.Errors = append(db.Errors, fmt.Sprintf("%s:%d: duplicate contract for %s", path, it.line, key))
				}
				db.Funcs[key] = cur
			}
			db.order = append(db.order, cur)
		case "trusted":
			if cur != nil {
				cur.Trusted = true
			}
		case "uselemma":
			if cur == nil {
				continue
			}
			if c := mkClause(it); c != nil {
				cur.UseLemmas = append(cur.UseLemmas, c)
			}
		case "requires", "ensures", "assume", "captures":
			if cur == nil {
				db.Errors = append(db.Errors, fmt.Sprintf("%s:%d: clause outside func", path, it.line))
				continue
			}
			c := mkClause(it)
			if c == nil {
				continue
			}
			switch it.kw {
			case "requires":
				cur.Requires = append(cur.Requires, c)
			case "ensures":
				cur.Ensures = append(cur.Ensures, c)
			case "assume":
				cur.Assumes = append(cur.Assumes, c)
			case "captures":
				cur.Captures = append(cur.Captures, c)
			}
		case "modifies":
			if cur != nil {
				cur.HasMod = true
				for _, m := range splitTop(it.text, ',') {
					m = strings.TrimSpace(m)
					if m != "" && m != "nothing" {
						cur.Modifies = append(cur.Modifies, m)
					}
				}
			}
		case "pure":
			if cur != nil {
				cur.Pure = true
				cur.HasMod = true
			}
		case "inline":
			if cur != nil {
				cur.Inline = true
			}
		case "dispatch":
			if cur != nil {
				cur.Dispatch = true
			}
		case "maypanic":
			if cur != nil {
				cur.MayPanic = true
			}
		case "perreturn":
			if cur != nil {
				cur.PerReturn = true
			}
		case "partial":
			if cur != nil {
				cur.Partial = true
			}
		case "returnsite":
			if cur == nil {
				continue
			}
			body := strings.TrimSpace(strings.TrimPrefix(strings.TrimSpace(it.text), ":"))
			if c := mkClause(item{it.kw, body, it.line}); c != nil {
				cur.ReturnSites = append(cur.ReturnSites, c)
			}
		case "recvsite":
			if cur == nil {
				continue
			}
			elem := ""
			body := strings.TrimSpace(it.text)
			if j := strings.Index(body, ":"); j >= 0 {
				elem = strings.TrimSpace(body[:j])
				body = strings.TrimSpace(body[j+1:])
			}
			if strings.HasPrefix(body, "stable ") {
				cur.RecvSites = append(cur.RecvSites, &RecvSiteSpec{Stable: strings.Fields(strings.ReplaceAll(body[7:], ",", " ")), Elem: elem})
				continue
			}
			// "[label] assume expr" or "assume [label] expr"
			label := ""
			for k := 0; k < 2; k++ {
				if strings.HasPrefix(body, "[") {
					if j := strings.Index(body, "]"); j > 0 {
						label = body[:j+1] + " "
						body = strings.TrimSpace(body[j+1:])
					}
				}
				body = strings.TrimSpace(strings.TrimPrefix(body, "assume "))
			}
			if c := mkClause(item{it.kw, label + body, it.line}); c != nil {
				cur.RecvSites = append(cur.RecvSites, &RecvSiteSpec{Clause: c, Elem: elem})
			}
		case "mapinv", "chaninv":
			j := strings.LastIndex(it.text, " : ")
			if j < 0 {
				db.Errors = append(db.Errors, fmt.Sprintf("%s:%d: %s needs 'type : expr'", path, it.line, it.kw))
				continue
			}
			if c := mkClause(item{it.kw, it.text[j+3:], it.line}); c != nil {
				mi := &MapInv{TypeText: strings.TrimSpace(it.text[:j]), Clause: c, Pkg: pkgPath, File: path, Line: it.line}
				if it.kw == "mapinv" {
					db.MapInvs = append(db.MapInvs, mi)
				} else {
					db.ChanInvs = append(db.ChanInvs, mi)
				}
			}
			cur, curLoop, curLemma = nil, nil, nil
		case "dyncalls-pure":
			if cur != nil {
				cur.DynPure = true
			}
		case "nosweep":
			if cur != nil {
				cur.NoSweep = true
			}
		case "nonblocking":
			if cur != nil {
				cur.Nonblock = true
			}
		case "on":
			if cur != nil {
				cur.On = it.text
			}
		case "props":
			if cur != nil {
				cur.Props = strings.Fields(it.text)
			} else if curLemma != nil {
				curLemma.Props = strings.Fields(it.text)
			}
		case "loop":
			if cur == nil {
				continue
			}
			curLoop = &LoopSpec{Selector: strings.TrimSpace(it.text), Line: it.line}
			if j := strings.LastIndex(curLoop.Selector, " #"); j >= 0 {
				fmt.Sscanf(curLoop.Selector[j+2:], "%d", &curLoop.Ordinal)
				curLoop.Selector = strings.TrimSpace(curLoop.Selector[:j])
			}
			cur.Loops = append(cur.Loops, curLoop)
		case "invariant":
			if curLoop == nil {
				db.Errors = append(db.Errors, fmt.Sprintf("%s:%d: invariant outside loop", path, it.line))
				continue
			}
			if c := mkClause(it); c != nil {
				curLoop.Invariants = append(curLoop.Invariants, c)
			}
		case "callsite", "sendsite":
			if cur == nil {
				continue
			}
			j := strings.Index(it.text, ":")
			if j < 0 {
				db.Errors = append(db.Errors, fmt.Sprintf("%s:%d: callsite needs 'callee : expr'", path, it.line))
				continue
			}
			body := strings.TrimSpace(it.text[j+1:])
			labelPart := ""
			if strings.HasPrefix(body, "[") {
				if k := strings.Index(body, "]"); k > 0 {
					labelPart = body[:k+1] + " "
					body = strings.TrimSpace(body[k+1:])
				}
			}
			useLemma := false
			if strings.HasPrefix(body, "use ") {
				useLemma = true
				body = strings.TrimSpace(body[4:])
			}
			assumeHere, assumeAfter := false, false
			if strings.HasPrefix(body, "assume-after ") {
				assumeAfter = true
				body = strings.TrimSpace(body[13:])
			} else if strings.HasPrefix(body, "assume ") {
				assumeHere = true
				body = strings.TrimSpace(body[7:])
			}
			body = labelPart + body
			c := mkClause(item{it.kw, body, it.line})
			if c == nil {
				continue
			}
			cs := &CallSiteSpec{Callee: strings.TrimSpace(it.text[:j]), Clause: c, UseLemma: useLemma, Assume: assumeHere, AssumeAfter: assumeAfter}
			if it.kw == "callsite" {
				cur.CallSites = append(cur.CallSites, cs)
			} else {
				cur.SendSites = append(cur.SendSites, cs)
			}
		case "callcount":
			f := strings.Fields(it.text)
			if cur == nil || len(f) < 2 || len(f) > 3 || !strings.HasPrefix(f[1], "arg") || (len(f) == 3 && f[2] != "iface") {
				db.Errors = append(db.Errors, fmt.Sprintf("%s:%d: callcount needs '<callee> argN [iface]'", path, it.line))
				continue
			}
			n := 0
			fmt.Sscanf(f[1][3:], "%d", &n)
			cur.CallCounts = append(cur.CallCounts, CallCount{Callee: f[0], Arg: n, Iface: len(f) == 3})
		case "lastresult":
			f := strings.Fields(it.text)
			if cur == nil || len(f) < 1 || len(f) > 2 {
				db.Errors = append(db.Errors, fmt.Sprintf("%s:%d: lastresult needs '<callee> [resultN]'", path, it.line))
				continue
			}
			n := 0
			if len(f) == 2 {
				fmt.Sscanf(strings.TrimPrefix(f[1], "result"), "%d", &n)
			}
			cur.LastResults = append(cur.LastResults, LastResult{Callee: f[0], Res: n})
		case "spec", "pred", "opaque":
			kw, text := it.kw, it.text
			opaque := false
			if kw == "opaque" {
				opaque = true
				kw = "pred"
				text = strings.TrimSpace(strings.TrimPrefix(strings.TrimSpace(text), "pred"))
			}
			sf, err := parseSpecFunc(kw, text)
			if sf != nil {
				sf.Opaque = opaque
			}
			if err != nil {
				db.Errors = append(db.Errors, fmt.Sprintf("%s:%d: %v", path, it.line, err))
				continue
			}
			sf.File, sf.Line, sf.Pkg = path, it.line, pkgPath
			db.Specs[sf.Name] = sf
			cur, curLoop, curLemma = nil, nil, nil
		case "immutable":
			f := strings.Fields(strings.ReplaceAll(it.text, ",", " "))
			if len(f) < 2 {
				db.Errors = append(db.Errors, fmt.Sprintf("%s:%d: immutable needs 'Type field...'", path, it.line))
				continue
			}
			db.Immutable = append(db.Immutable, ImmutableDecl{Pkg: pkgPath, Type: f[0], Fields: f[1:], Line: it.line, File: path})
			cur, curLoop, curLemma = nil, nil, nil
		case "slicenorm":
			f := strings.Fields(strings.ReplaceAll(it.text, ",", " "))
			if len(f) < 2 {
				db.Errors = append(db.Errors, fmt.Sprintf("%s:%d: slicenorm needs 'Type field...'", path, it.line))
				continue
			}
			db.SliceNorm = append(db.SliceNorm, ImmutableDecl{Pkg: pkgPath, Type: f[0], Fields: f[1:], Line: it.line, File: path})
			cur, curLoop, curLemma = nil, nil, nil
		case "fieldinv":
			j := strings.Index(it.text, ":")
			if j < 0 {
				db.Errors = append(db.Errors, fmt.Sprintf("%s:%d: fieldinv needs 'Type.field : expr'", path, it.line))
				continue
			}
			tf := strings.Split(strings.TrimSpace(it.text[:j]), ".")
			c := mkClause(item{it.kw, it.text[j+1:], it.line})
			if c == nil || len(tf) != 2 {
				continue
			}
			db.FieldInvs = append(db.FieldInvs, &FieldInv{Pkg: pkgPath, Type: tf[0], Field: tf[1], Clause: c})
			cur, curLoop, curLemma = nil, nil, nil
		case "owned":
			f := strings.Fields(it.text)
			if len(f) == 2 {
				db.Owned[pkgPath+"."+f[0]] = f[1]
			}
		case "lemma":
			name, params, err := parseSig(it.text)
			if err != nil {
				db.Errors = append(db.Errors, fmt.Sprintf("%s:%d: %v", path, it.line, err))
				continue
			}
			curLemma = &Lemma{Name: name, Params: params, Pkg: pkgPath, File: path, Line: it.line}
			db.Lemmas = append(db.Lemmas, curLemma)
			cur, curLoop = nil, nil
		case "hyp", "concl":
			if curLemma == nil {
				continue
			}
			if c := mkClause(it); c != nil {
				if it.kw == "hyp" {
					curLemma.Hyps = append(curLemma.Hyps, c)
				} else {
					curLemma.Concl = append(curLemma.Concl, c)
				}
			}
		case "end":
			cur, curLoop, curLemma = nil, nil, nil
		}
	}
}

// contractKey computes the binding key from a header like
// "(g *IDGen) Next" or "ValidURI" -> pkg.(*IDGen).Next style used by
// ssa.Function.String().
func contractKey(kw, text, pkgPath string) (string, error) {
	t := strings.TrimSpace(text)
	if kw == "closure" {
		// "closure (b *broker) publish 1" -> (*broker).publish$1
		f := strings.Fields(t)
		if len(f) < 2 {
			return "", fmt.Errorf("closure header needs function and ordinal")
		}
		ord := f[len(f)-1]
		base, err := contractKey("func", strings.Join(f[:len(f)-1], " "), pkgPath)
		if err != nil {
			return "", err
		}
		return base + "$" + strings.ReplaceAll(ord, ".", "$"), nil
	}
	if kw == "iface" {
		// "(Peer) Send" -> pkg.Peer.Send ; "(wamp.Peer) Send" for foreign
		if !strings.HasPrefix(t, "(") {
			return "", fmt.Errorf("iface header needs (Type) Method")
		}
		j := strings.Index(t, ")")
		tn := strings.TrimSpace(t[1:j])
		m := strings.TrimSpace(t[j+1:])
		if k := strings.Index(tn, " "); k >= 0 {
			tn = strings.TrimSpace(tn[k:])
		}
		if strings.Contains(tn, "/") || strings.Contains(tn, ".") {
			return tn + "." + m, nil
		}
		return pkgPath + "." + tn + "." + m, nil
	}
	if strings.HasPrefix(t, "(") {
		j := strings.Index(t, ")")
		if j < 0 {
			return "", fmt.Errorf("bad receiver")
		}
		recv := strings.Fields(t[1:j])
		name := strings.TrimSpace(t[j+1:])
		rt := recv[len(recv)-1]
		if strings.HasPrefix(rt, "*") {
			return fmt.Sprintf("(*%s.%s).%s", pkgPath, rt[1:], name), nil
		}
		return fmt.Sprintf("(%s.%s).%s", pkgPath, rt, name), nil
	}
	if strings.Contains(t, ".") && !strings.Contains(t, " ") {
		// foreign function: "strings.HasPrefix"
		return t, nil
	}
	return pkgPath + "." + t, nil
}

func splitTop(s string, sep rune) []string {
	var out []string
	depth := 0
	start := 0
	for i, r := range s {
		switch r {
		case '(', '[':
			depth++
		case ')', ']':
			depth--
		default:
			if r == sep && depth == 0 {
				out = append(out, s[start:i])
				start = i + 1
			}
		}
	}
	out = append(out, s[start:])
	return out
}

// parseSig parses "name(a T, b U)".
func parseSig(text string) (string, []qvar, error) {
	i := strings.Index(text, "(")
	if i < 0 {
		return "", nil, fmt.Errorf("missing parameter list")
	}
	name := strings.TrimSpace(text[:i])
	depth := 0
	j := -1
	for k := i; k < len(text); k++ {
		if text[k] == '(' {
			depth++
		} else if text[k] == ')' {
			depth--
			if depth == 0 {
				j = k
				break
			}
		}
	}
	if j < 0 {
		return "", nil, fmt.Errorf("unbalanced parameter list")
	}
	var params []qvar
	for _, p := range splitTop(text[i+1:j], ',') {
		p = strings.TrimSpace(p)
		if p == "" {
			continue
		}
		k := strings.IndexFunc(p, unicode.IsSpace)
		if k < 0 {
			return "", nil, fmt.Errorf("parameter %q needs a type", p)
		}
		params = append(params, qvar{Name: p[:k], Type: strings.TrimSpace(p[k:])})
	}
	return name, params, nil
}

// parseSpecFunc parses "func name(a T, b U) R = expr" or "name(a T) = expr".
func parseSpecFunc(kw, text string) (*SpecFunc, error) {
	t := strings.TrimSpace(text)
	sf := &SpecFunc{Src: t}
	if kw == "spec" {
		if strings.HasPrefix(t, "rec ") {
			sf.Rec = true
			t = strings.TrimSpace(t[4:])
		}
		if strings.HasPrefix(t, "func ") {
			t = strings.TrimSpace(t[5:])
		}
	} else {
		sf.Macro = true
	}
	eqi := indexTopEq(t)
	if eqi < 0 {
		// uninterpreted spec function: "spec func f(a T) R"
		name, params, err := parseSig(t)
		if err != nil {
			return nil, err
		}
		sf.Name, sf.Params = name, params
		if j := strings.LastIndex(t, ")"); j >= 0 {
			sf.Result = strings.TrimSpace(t[j+1:])
		}
		if sf.Result == "" {
			sf.Result = "bool"
		}
		sf.Uninterp = true
		return sf, nil
	}
	head, body := strings.TrimSpace(t[:eqi]), strings.TrimSpace(t[eqi+1:])
	name, params, err := parseSig(head)
	if err != nil {
		return nil, err
	}
	sf.Name, sf.Params = name, params
	if j := strings.LastIndex(head, ")"); j >= 0 {
		sf.Result = strings.TrimSpace(head[j+1:])
	}
	if sf.Result == "" {
		sf.Result = "bool"
	}
	ex, err := parseExpr(body)
	if err != nil {
		return nil, fmt.Errorf("%v in %q", err, body)
	}
	sf.Body = ex
	return sf, nil
}

// indexTopEq finds the first '=' that is not part of ==, <=, >=, !=, ==>.
func indexTopEq(s string) int {
	depth := 0
	for i := 0; i < len(s); i++ {
		switch s[i] {
		case '(', '[':
			depth++
		case ')', ']':
			depth--
		case '=':
			if depth == 0 {
				prev := byte(' ')
				if i > 0 {
					prev = s[i-1]
				}
				next := byte(' ')
				if i+1 < len(s) {
					next = s[i+1]
				}
				if prev != '=' && prev != '<' && prev != '>' && prev != '!' && next != '=' {
					return i
				}
			}
		}
	}
	return -1
}
