package main

// Calls: builtins, trusted models, contracts, inlining, havoc.

import (
	"fmt"
	"go/ast"
	"go/token"
	"go/types"
	"sort"
	"strings"

	"golang.org/x/tools/go/ssa"
)

func (e *Enc) makeClosure(fr *frame, st *State, x *ssa.MakeClosure) Value {
	fn := x.Fn.(*ssa.Function)
	ci := &cloInfo{fn: fn}
	for _, b := range x.Bindings {
		ci.bindings = append(ci.bindings, fr.val(st, b))
	}
	ref := e.q.define(fr.prefix+x.Name(), sortInt, st.ap)
	st.ap = e.q.define("ap", sortInt, "(+ "+st.ap+" 1)")
	st.assume("(> " + ref + " 0)")
	// facts the closure's contract demands of its captured variables
	if con := e.v.db.Funcs[funcKey(fn)]; con != nil && len(con.Captures) > 0 {
		vars := map[string]Value{}
		for i, fv := range fn.FreeVars {
			if i >= len(ci.bindings) {
				break
			}
			if _, isPtr := fv.Type().Underlying().(*types.Pointer); isPtr {
				vars[fv.Name()] = e.loadPtr(st, ci.bindings[i], 0)
			}
			vars["&"+fv.Name()] = ci.bindings[i]
		}
		env := &SpecEnv{e: e, pkg: fn.Pkg.Pkg, vars: vars, cur: st, old: e.entry, where: "captures of " + funcDisplayName(fn)}
		for _, c := range con.Captures {
			e.obligeClauseNamed(env, st, "captures", shortCallee(funcDisplayName(fn))+":"+c.Label, c, x.Pos())
		}
	}
	return Value{term: ref, typ: x.Type(), clo: ci}
}

func (e *Enc) call(fr *frame, st *State, c *ssa.CallCommon, res ssa.Value, pos token.Pos) Value {
	var fnv Value
	if c.IsInvoke() {
		fnv = fr.val(st, c.Value)
	} else if _, isB := c.Value.(*ssa.Builtin); !isB {
		fnv = fr.val(st, c.Value)
	}
	args := make([]Value, len(c.Args))
	for i, a := range c.Args {
		args[i] = fr.val(st, a)
	}
	out := e.callWith(fr, st, c, fnv, args, res, pos)
	if e.contract != nil && len(e.contract.LastResults) > 0 && !fr.inlined {
		name := ""
		if c.IsInvoke() {
			name = c.Method.Name()
		} else if sc := c.StaticCallee(); sc != nil {
			name = sc.Name()
		}
		for _, lr := range e.contract.LastResults {
			if lr.Callee != name {
				continue
			}
			rv := out
			if len(out.tuple) > 0 {
				if lr.Res >= len(out.tuple) {
					continue
				}
				rv = out.tuple[lr.Res]
			}
			if rv.term == "" {
				continue
			}
			k := lastResultKey(name, e.u.sortOf(rv.typ))
			e.lastResTypes[name] = rv.typ
			e.ghostSet(st, k, rv.term)
			e.v.callsiteHits[e.contract.Key+"/lastresult:"+name]++
		}
	}
	if e.contract != nil && len(e.contract.CallSites) > 0 {
		name, fn, cargs := "<dynamic>", (*ssa.Function)(nil), args
		if c.IsInvoke() {
			name = c.Method.Name()
			cargs = append([]Value{fnv}, args...)
		} else if sc := c.StaticCallee(); sc != nil {
			name, fn = sc.Name(), sc
		} else if fnv.clo != nil {
			name, fn = fnv.clo.fn.Name(), fnv.clo.fn
		}
		e.callsiteAfter(fr, st, name, fn, cargs, out, pos)
	}
	return out
}

func resultType(c *ssa.CallCommon) types.Type {
	sig := c.Signature()
	switch sig.Results().Len() {
	case 0:
		return nil
	case 1:
		return sig.Results().At(0).Type()
	}
	return sig.Results()
}

func (e *Enc) freshResult(st *State, prefix string, rt types.Type) Value {
	if rt == nil {
		return Value{typ: types.NewTuple()}
	}
	return e.freshValue(st, prefix, rt)
}

func (e *Enc) callWith(fr *frame, st *State, c *ssa.CallCommon, fnv Value, args []Value, res ssa.Value, pos token.Pos) Value {
	name := "call"
	if res != nil {
		name = res.Name()
	}
	prefix := fr.prefix + name
	rt := resultType(c)
	if b, ok := c.Value.(*ssa.Builtin); ok && !c.IsInvoke() {
		return e.builtin(fr, st, b, c, args, prefix, pos)
	}
	if c.IsInvoke() {
		return e.invoke(fr, st, c, fnv, args, prefix, pos)
	}
	var fn *ssa.Function
	var bindings []Value
	if sc := c.StaticCallee(); sc != nil {
		fn = sc
		if fnv.clo != nil {
			bindings = fnv.clo.bindings
		}
	} else if fnv.clo != nil {
		fn = fnv.clo.fn
		bindings = fnv.clo.bindings
	}
	if fn == nil {
		// dynamic call of an unknown function value
		e.oblige(st, "nopanic", "nil-func-call", "(not (= "+fnv.term+" 0))", pos)
		e.callsiteChecks(fr, st, "<dynamic>", nil, args, pos)
		if e.contract != nil && e.contract.DynPure {
			e.v.useTrusted("assume:" + e.contract.Key + ": function values called here do not modify modelled state and do not panic")
			return e.freshResult(st, prefix, rt)
		}
		e.unknownCall(fr, st, "dynamic function value", args)
		return e.freshResult(st, prefix, rt)
	}
	e.callsiteChecks(fr, st, fn.Name(), fn, args, pos)
	key := funcKey(fn)
	if e.v.inRepo(fn) && fn.Parent() == nil {
		e.checkPendingFieldInvs(st, pos)
	}
	if m, mname, ok := lookupModel2(key); ok {
		e.v.useTrusted(mname)
		curCall = c
		defer func() { curCall = nil }()
		return m(e, fr, st, args, prefix, rt)
	}
	if con := e.v.db.Funcs[key]; con != nil && !con.Inline {
		return e.applyContract(fr, st, con, fn, args, bindings, prefix, rt, pos)
	}
	if fn.Blocks != nil && (fn.Parent() != nil || (e.v.db.Funcs[key] != nil && e.v.db.Funcs[key].Inline) || e.v.autoInline(fn)) && e.depth < 5 {
		return e.inline(fr, st, fn, args, bindings, prefix, rt, pos)
	}
	if fn.Blocks != nil && e.v.inRepo(fn) {
		if e.v.sweepScope != nil && e.v.sweepScope(key) && !fr.inlined {
			// the callee is verified by the sweep under its default
			// precondition; its callers establish it
			for i, p := range fn.Params {
				if i >= len(args) || !defaultNonNilParam(p.Type()) {
					continue
				}
				if _, isPtr := p.Type().Underlying().(*types.Pointer); isPtr {
					continue // pointer parameters: assumed in the callee, not asserted here (optional pointers are common)
				}
				cond := "(not (= " + args[i].term + " 0))"
				if e.u.sortOf(args[i].typ) == sortIface {
					cond = "(not (= (itag " + args[i].term + ") 0))"
				}
				e.oblige(st, "pre", shortCallee(funcDisplayName(fn))+":default-non-nil "+p.Name(), cond, pos)
			}
		}
		// in-repo function without contract: effects unknown, checked on its
		// own under precondition true.
		keys, all, ghosts := e.v.funcWrites(e, fn)
		e.havocInferred(st, fn, keys, all, ghosts, e.v.funcWriteSet(e, fn).closes)
		e.v.uncontracted[key] = true
		return e.freshResult(st, prefix, rt)
	}
	// external function
	if e.v.externalPure(fn) {
		e.v.useTrusted("pure:" + key)
		return e.freshResult(st, prefix, rt)
	}
	e.v.useTrusted("nopanic+havoc:" + key)
	e.unknownCall(fr, st, key, args)
	return e.freshResult(st, prefix, rt)
}

func (e *Enc) havocKeys(st *State, keys []string, all, ghosts bool) {
	e.havocKeys2(st, keys, all, ghosts, all)
}

func (e *Enc) havocKeys2(st *State, keys []string, all, ghosts, closes bool) {
	if all {
		st.havocAll(e.localRefs, nil)
	} else {
		sort.Strings(keys)
		for _, k := range keys {
			st.havocKey(k, e.localRefs)
		}
		nap := e.q.fresh("ap", sortInt)
		st.assume("(<= " + st.ap + " " + nap + ")")
		st.ap = nap
	}
	for _, k := range []string{ghostSendCount, ghostClosed} {
		if all || (k == ghostSendCount && ghosts) || (k == ghostClosed && closes) {
			e.ghostGet(st, k)
			st.ghost[k] = e.q.fresh("gh_"+k, e.q.ghostSort(k))
		}
	}
}

// havocInferred applies the inferred write set of an in-repo callee. If the
// callee forgets "everything" only because it blocks (no code of unknown
// effect is involved), state owned by the component the current function runs
// on is written by nobody but the callee itself: owned arrays outside its key
// set survive (ownership is a checked structural obligation).
func (e *Enc) havocInferred(st *State, fn *ssa.Function, keys []string, all, ghosts, closes bool) {
	ws := e.v.funcWriteSet(e, fn)
	owned := e.ownedKeyFilter()
	if all && !ws.unknown && owned != nil {
		kset := map[string]bool{}
		for _, k := range keys {
			kset[k] = true
		}
		st.havocAll(e.localRefs, func(key string) bool { return owned(key) && !kset[key] })
		for _, k := range []string{ghostSendCount, ghostClosed} {
			e.ghostGet(st, k)
			st.ghost[k] = e.q.fresh("gh_"+k, e.q.ghostSort(k))
		}
		return
	}
	e.havocKeys2(st, keys, all, ghosts, closes)
}

// unknownCall havocs everything an unknown callee could reach.
func (e *Enc) unknownCall(fr *frame, st *State, what string, args []Value) {
	st.havocAll(e.localRefs, nil)
	for _, k := range []string{ghostSendCount, ghostClosed} {
		e.ghostGet(st, k)
		st.ghost[k] = e.q.fresh("gh_"+k, e.q.ghostSort(k))
	}
	e.q.note("havoc: call of %s forgets all heap state", what)
}

func funcKey(fn *ssa.Function) string {
	return fn.String()
}

// ---------------------------------------------------------------------------

func (e *Enc) builtin(fr *frame, st *State, b *ssa.Builtin, c *ssa.CallCommon, args []Value, prefix string, pos token.Pos) Value {
	intT := types.Typ[types.Int]
	switch b.Name() {
	case "len":
		a := args[0]
		switch a.typ.Underlying().(type) {
		case *types.Slice:
			return Value{term: "(s_len " + a.term + ")", typ: intT}
		case *types.Basic:
			return Value{term: "(str.len " + a.term + ")", typ: intT}
		case *types.Map:
			_, _, ln := e.mapKeys(a.typ)
			e.mapLenFacts(st, a.typ, a.term)
			return Value{term: e.q.define(prefix, sortInt, ite("(= "+a.term+" 0)", "0", sel(st.get(ln), a.term))), typ: intT}
		case *types.Array:
			return Value{term: fmt.Sprint(a.typ.Underlying().(*types.Array).Len()), typ: intT}
		case *types.Pointer:
			return Value{term: fmt.Sprint(a.typ.Underlying().(*types.Pointer).Elem().Underlying().(*types.Array).Len()), typ: intT}
		case *types.Chan:
			v := e.freshValue(st, prefix, intT)
			st.assume("(>= " + v.term + " 0)")
			return v
		}
	case "cap":
		a := args[0]
		switch a.typ.Underlying().(type) {
		case *types.Slice:
			return Value{term: "(s_cap " + a.term + ")", typ: intT}
		case *types.Chan:
			e.v.declFun("chancap", "(Int) Int")
			return Value{term: "(chancap " + a.term + ")", typ: intT}
		}
		v := e.freshValue(st, prefix, intT)
		st.assume("(>= " + v.term + " 0)")
		return v
	case "append":
		_, isStr := args[1].typ.Underlying().(*types.Basic)
		if !isStr && singleVarargs(c.Args[1]) {
			return e.appendOne(fr, st, args[0], args[1], args[0].typ, prefix)
		}
		return e.appendOp(fr, st, args[0], args[1], args[0].typ, prefix, isStr)
	case "copy":
		return e.copyOp(fr, st, args[0], args[1], prefix)
	case "delete":
		e.mapDelete(st, args[0].typ, args[0].term, args[1].term)
		return Value{typ: types.NewTuple()}
	case "close":
		ch := args[0]
		e.closeChan(fr, st, ch, pos)
		return Value{typ: types.NewTuple()}
	case "min", "max":
		op := "<="
		if b.Name() == "max" {
			op = ">="
		}
		cur := args[0].term
		for _, a := range args[1:] {
			cur = "(ite (" + op + " " + cur + " " + a.term + ") " + cur + " " + a.term + ")"
		}
		return Value{term: e.q.define(prefix, e.u.sortOf(args[0].typ), cur), typ: args[0].typ}
	case "recover":
		return Value{term: "nil_iface", typ: types.Universe.Lookup("any").Type()}
	case "print", "println":
		return Value{typ: types.NewTuple()}
	case "ssa:wrapnilchk":
		e.oblige(st, "nopanic", "nil-receiver", "(not (= "+args[0].term+" 0))", pos)
		return args[0]
	case "clear":
		e.q.note("unsupported builtin clear")
		e.unknownCall(fr, st, "clear", args)
		return Value{typ: types.NewTuple()}
	}
	panic("unsupported builtin " + b.Name())
}

func (e *Enc) closeChan(fr *frame, st *State, ch Value, pos token.Pos) {
	e.oblige(st, "nopanic", "close-nil-chan", "(not (= "+ch.term+" 0))", pos)
	cl := e.ghostGet(st, ghostClosed)
	if e.v.checkClosed(e) {
		e.oblige(st, "typestate", "close-of-closed", not(sel(cl, ch.term)), pos)
	}
	e.ghostSet(st, ghostClosed, store(cl, ch.term, "true"))
}

func (e *Enc) copyOp(fr *frame, st *State, dst, src Value, prefix string) Value {
	et := dst.typ.Underlying().(*types.Slice).Elem()
	ek := e.elemKey(et)
	es := e.u.sortOf(et)
	var sl string
	_, srcStr := src.typ.Underlying().(*types.Basic)
	if srcStr {
		sl = "(str.len " + src.term + ")"
	} else {
		sl = "(s_len " + src.term + ")"
	}
	n := e.q.define(prefix+"_n", sortInt, fmt.Sprintf("(ite (<= (s_len %s) %s) (s_len %s) %s)", dst.term, sl, dst.term, sl))
	heapE := st.get(ek)
	na := e.q.fresh(prefix+"_elems", "(Array Int "+es+")")
	j := e.q.freshBound("j")
	var srcElem string
	if srcStr {
		srcElem = fmt.Sprintf("(str.to_code (str.at %s (- %s (s_off %s))))", src.term, j, dst.term)
	} else {
		srcElem = sel(sel(heapE, "(s_arr "+src.term+")"), fmt.Sprintf("(+ (s_off %s) (- %s (s_off %s)))", src.term, j, dst.term))
	}
	old := sel(heapE, "(s_arr "+dst.term+")")
	st.assume(fmt.Sprintf("(forall ((%[1]s Int)) (= (select %[2]s %[1]s) (ite (and (<= (s_off %[3]s) %[1]s) (< %[1]s (+ (s_off %[3]s) %[4]s))) %[5]s (select %[6]s %[1]s))))", j, na, dst.term, n, srcElem, old))
	st.set(ek, store(heapE, "(s_arr "+dst.term+")", na))
	return Value{term: n, typ: types.Typ[types.Int]}
}

// ---------------------------------------------------------------------------
// interface method calls

func (e *Enc) invoke(fr *frame, st *State, c *ssa.CallCommon, recv Value, args []Value, prefix string, pos token.Pos) Value {
	rt := resultType(c)
	key := ifaceMethodKey(c.Method)
	e.callsiteChecks(fr, st, c.Method.Name(), nil, append([]Value{recv}, args...), pos)
	e.oblige(st, "nopanic", "nil-interface-call "+c.Method.Name(), "(not (= (itag "+recv.term+") 0))", pos)
	if m, ok := trustedIfaceModels[key]; ok {
		e.v.useTrusted(key)
		return m(e, fr, st, recv, args, prefix, rt)
	}
	if con := e.v.db.Ifaces[key]; con != nil {
		res := e.applyIfaceContract(fr, st, con, c, recv, args, prefix, rt, pos)
		if con.Dispatch {
			e.dispatchFacts(st, c, recv, res)
		}
		return res
	}
	if e.v.ifacePure(c.Method) {
		e.v.useTrusted("pure:" + key)
		return e.freshResult(st, prefix, rt)
	}
	e.v.useTrusted("nopanic+havoc:" + key)
	e.unknownCall(fr, st, "interface method "+key, args)
	return e.freshResult(st, prefix, rt)
}

func ifaceMethodKey(m *types.Func) string {
	// "(pkg/path.Iface).Method" -> "pkg/path.Iface.Method"
	s := m.FullName()
	s = strings.Replace(s, "(", "", 1)
	s = strings.Replace(s, ")", "", 1)
	return s
}

// pureMethodTerm: uninterpreted function symbol for a pure interface method.
func (e *Enc) pureMethodTerm(env *SpecEnv, recv Value, name string) Value {
	obj, _, _ := types.LookupFieldOrMethod(recv.typ, true, env.pkg, name)
	m, ok := obj.(*types.Func)
	if !ok {
		env.errorf("no method %s on %s", name, recv.typ)
	}
	sig := m.Type().(*types.Signature)
	if sig.Results().Len() != 1 || sig.Params().Len() != 0 {
		env.errorf("method(%s) needs a niladic single-result method", name)
	}
	rt := sig.Results().At(0).Type()
	fn := "pm_" + sanitize(ifaceMethodKey(m))
	e.v.declFun(fn, "("+e.u.sortOf(recv.typ)+") "+e.u.sortOf(rt))
	return Value{term: "(" + fn + " " + recv.term + ")", typ: rt}
}

func (e *Enc) applyIfaceContract(fr *frame, st *State, con *Contract, c *ssa.CallCommon, recv Value, args []Value, prefix string, rt types.Type, pos token.Pos) Value {
	sig := c.Method.Type().(*types.Signature)
	vars := map[string]Value{"recv": recv, "self": recv}
	for i := 0; i < sig.Params().Len() && i < len(args); i++ {
		if n := sig.Params().At(i).Name(); n != "" {
			vars[n] = args[i]
		}
		vars[fmt.Sprintf("arg%d", i)] = args[i]
	}
	pkg := c.Method.Pkg()
	if p := e.v.pkgByPath[con.Pkg]; p != nil {
		pkg = p
	}
	return e.applyClauses(fr, st, con, pkg, vars, nil, prefix, rt, pos, con.Key)
}

// ---------------------------------------------------------------------------
// contracts at call sites

func (e *Enc) paramVars(fn *ssa.Function, args []Value, bindings []Value) map[string]Value {
	vars := map[string]Value{}
	for i, p := range fn.Params {
		if i < len(args) {
			vars[p.Name()] = args[i]
			vars[fmt.Sprintf("arg%d", i)] = args[i]
		}
	}
	for i, fv := range fn.FreeVars {
		if i < len(bindings) {
			// free variables are pointers to the captured variable's cell
			vars["&"+fv.Name()] = bindings[i]
		}
	}
	return vars
}

func (e *Enc) applyContract(fr *frame, st *State, con *Contract, fn *ssa.Function, args, bindings []Value, prefix string, rt types.Type, pos token.Pos) Value {
	vars := e.paramVars(fn, args, bindings)
	e.v.calledContracts[con.Key] = true
	var inferred func() ([]string, bool, bool)
	if !con.HasMod {
		inferred = func() ([]string, bool, bool) { return e.v.funcWrites(e, fn) }
		e.inferredFn = fn
		defer func() { e.inferredFn = nil }()
	}
	e.curSig = fn.Signature
	defer func() { e.curSig = nil }()
	return e.applyClauses(fr, st, con, fn.Pkg.Pkg, vars, inferred, prefix, rt, pos, funcDisplayName(fn))
}

func (e *Enc) applyClauses(fr *frame, st *State, con *Contract, pkg *types.Package, vars map[string]Value, inferred func() ([]string, bool, bool), prefix string, rt types.Type, pos token.Pos, calleeName string) Value {
	env := &SpecEnv{e: e, pkg: pkg, vars: vars, cur: st, where: "call " + calleeName + " at " + e.pos(pos)}
	for _, r := range con.Requires {
		e.obligeClauseNamed(env, st, "pre", shortCallee(calleeName)+":"+r.Label, r, pos)
	}
	pre := st.clone()
	// havoc
	if con.HasMod {
		e.havocModifies(env, st, con)
	} else if inferred != nil {
		keys, all, ghosts := inferred()
		if e.inferredFn != nil {
			e.havocInferred(st, e.inferredFn, keys, all, ghosts, all)
		} else {
			e.havocKeys(st, keys, all, ghosts)
		}
	}
	for _, cc := range con.CallCounts {
		k := cc.key()
		e.ghostGet(st, k)
		st.ghost[k] = e.q.fresh("gh_"+k, e.q.ghostSort(k))
	}
	if !con.Pure && con.HasMod {
		nap := e.q.fresh("ap", sortInt)
		st.assume("(<= " + st.ap + " " + nap + ")")
		st.ap = nap
	}
	res := e.freshResult(st, prefix, rt)
	post := &SpecEnv{e: e, pkg: pkg, vars: vars, cur: st, old: pre, where: "post " + calleeName + " at " + e.pos(pos)}
	if rt != nil {
		if _, isTuple := rt.(*types.Tuple); isTuple {
			post.results = res.tuple
		} else {
			post.results = []Value{res}
		}
	}
	if e.curSig != nil {
		// named results of the callee
		pv := map[string]Value{}
		for k, val := range vars {
			pv[k] = val
		}
		for i := 0; i < e.curSig.Results().Len() && i < len(post.results); i++ {
			if n := e.curSig.Results().At(i).Name(); n != "" && n != "_" {
				if _, clash := pv[n]; !clash {
					pv[n] = post.results[i]
				}
			}
		}
		post.vars = pv
	}
	for _, c := range con.Ensures {
		st.assume(e.evalClauseAssume(post, c))
	}
	return res
}

func shortCallee(s string) string {
	if i := strings.LastIndex(s, "/"); i >= 0 {
		s = s[i+1:]
	}
	return s
}

type modTarget struct {
	key string
	idx string // "" = whole array
	// freshOnly: only cells allocated during the call are written (the
	// callee builds new objects of this kind); pre-existing cells keep their value
	freshOnly bool
}

// modTargets evaluates a contract's modifies items in env.
func (e *Enc) modTargets(env *SpecEnv, con *Contract) (targets []modTarget, all bool, ghosts []string) {
	for _, item := range con.Modifies {
		item = strings.TrimSpace(item)
		switch {
		case item == "everything":
			all = true
		case strings.HasPrefix(item, "ghost "):
			g := strings.TrimSpace(item[6:])
			switch g {
			case "sendcount":
				ghosts = append(ghosts, ghostSendCount)
			case "closed":
				ghosts = append(ghosts, ghostClosed)
			default:
				env.errorf("unknown ghost %s", g)
			}
		case item == "all deques":
			if _, ok := e.q.keySort("DQL"); !ok {
				e.q.declareHeap("DQL", "(Array Int Int)")
			}
			targets = append(targets, modTarget{key: "DQL"})
			for k := range globalHeapSort {
				if strings.HasPrefix(k, "DQE:") {
					e.q.keySort(k)
					targets = append(targets, modTarget{key: k})
				}
			}
		case strings.HasPrefix(item, "all "), strings.HasPrefix(item, "fresh "):
			fo := strings.HasPrefix(item, "fresh ")
			rest := strings.TrimSpace(item[strings.Index(item, " "):])
			if strings.HasPrefix(rest, "map[") {
				t := env.resolveType(rest)
				d, v, l := e.mapKeys(t)
				targets = append(targets, modTarget{d, "", fo}, modTarget{v, "", fo}, modTarget{l, "", fo})
			} else if strings.HasPrefix(rest, "[]") {
				t := env.resolveType(rest[2:])
				targets = append(targets, modTarget{e.elemKey(t), "", fo})
			} else if strings.HasPrefix(rest, "*") {
				t := env.resolveType(rest[1:])
				targets = append(targets, modTarget{e.cellKey(t), "", fo})
			} else {
				i := strings.LastIndex(rest, ".")
				if i < 0 {
					env.errorf("modifies all needs Type.field")
				}
				t := env.resolveType(rest[:i])
				s, ok := t.Underlying().(*types.Struct)
				if !ok {
					env.errorf("%s is not a struct", rest[:i])
				}
				found := false
				for k := 0; k < s.NumFields(); k++ {
					if s.Field(k).Name() == rest[i+1:] || rest[i+1:] == "*" {
						if _, isStruct := s.Field(k).Type().Underlying().(*types.Struct); isStruct {
							continue
						}
						targets = append(targets, modTarget{e.fieldKey(t, k), "", fo})
						found = true
					}
				}
				if !found {
					env.errorf("no field %s", rest)
				}
			}
		default:
			x, err := parseExpr(item)
			if err != nil {
				env.errorf("modifies item %q: %v", item, err)
			}
			targets = append(targets, e.modTargetsOf(env, x)...)
		}
	}
	return
}

func (e *Enc) modTargetsOf(env *SpecEnv, x *Expr) []modTarget {
	switch {
	case x.Op == "call" && x.Name == "map" && len(x.Args) == 1:
		m := env.eval(x.Args[0])
		d, v, l := e.mapKeys(m.typ)
		return []modTarget{{key: d, idx: m.term}, {key: v, idx: m.term}, {key: l, idx: m.term}}
	case x.Op == "call" && x.Name == "deque" && len(x.Args) == 1:
		pv := env.eval(x.Args[0])
		// make sure the keys exist
		env.eval(&Expr{Op: "call", Name: "dqlen", Args: x.Args})
		var et types.Type
		if n, ok := types.Unalias(pv.typ.Underlying().(*types.Pointer).Elem()).(*types.Named); ok && n.TypeArgs().Len() == 1 {
			et = n.TypeArgs().At(0)
		}
		return []modTarget{{key: "DQL", idx: pv.term}, {key: "DQE:" + shortTypeName(et), idx: pv.term}}
	case x.Op == "call" && x.Name == "elems" && len(x.Args) == 1:
		s := env.eval(x.Args[0])
		et := s.typ.Underlying().(*types.Slice).Elem()
		return []modTarget{{key: e.elemKey(et), idx: "(s_arr " + s.term + ")"}}
	case x.Op == "unary" && x.Name == "*":
		p := env.eval(x.Args[0])
		return e.ptrTargets(env, p)
	case x.Op == "sel":
		base := env.eval(x.Args[0])
		obj, path, _ := types.LookupFieldOrMethod(base.typ, true, env.pkgOf(base.typ), x.Name)
		if _, ok := obj.(*types.Var); !ok {
			env.errorf("modifies: no field %s", x.Name)
		}
		cur := base
		for _, idx := range path[:len(path)-1] {
			cur = env.fieldOf(cur, idx)
		}
		pt, ok := cur.typ.Underlying().(*types.Pointer)
		if !ok {
			env.errorf("modifies: %s is not addressable through a pointer", x)
		}
		last := path[len(path)-1]
		ft := pt.Elem().Underlying().(*types.Struct).Field(last).Type()
		if _, isStruct := ft.Underlying().(*types.Struct); isStruct {
			return e.ptrTargets(env, Value{term: e.fieldRef(env.cur, pt.Elem(), last, cur.term), typ: types.NewPointer(ft)})
		}
		return []modTarget{{key: e.fieldKey(pt.Elem(), last), idx: cur.term}}
	}
	env.errorf("unsupported modifies item %s", x)
	return nil
}

func (e *Enc) ptrTargets(env *SpecEnv, p Value) []modTarget {
	pt, ok := p.typ.Underlying().(*types.Pointer)
	if !ok {
		env.errorf("modifies *x needs a pointer")
	}
	et := pt.Elem()
	if s, isStruct := et.Underlying().(*types.Struct); isStruct {
		var out []modTarget
		for i := 0; i < s.NumFields(); i++ {
			ft := s.Field(i).Type()
			if _, nested := ft.Underlying().(*types.Struct); nested {
				out = append(out, e.ptrTargets(env, Value{term: e.fieldRef(env.cur, et, i, p.term), typ: types.NewPointer(ft)})...)
			} else {
				out = append(out, modTarget{key: e.fieldKey(et, i), idx: p.term})
			}
		}
		return out
	}
	return []modTarget{{key: e.cellKey(et), idx: p.term}}
}

func (e *Enc) havocModifies(env *SpecEnv, st *State, con *Contract) {
	targets, all, ghosts := e.modTargets(env, con)
	if all {
		st.havocAll(e.localRefs, nil)
		ghosts = []string{ghostSendCount, ghostClosed}
	}
	whole := map[string]bool{}
	freshOnly := map[string]bool{}
	for _, t := range targets {
		if t.idx == "" {
			whole[t.key] = true
			if t.freshOnly {
				freshOnly[t.key] = true
			}
		}
	}
	for _, t := range targets {
		if t.idx == "" && !t.freshOnly {
			delete(freshOnly, t.key)
		}
	}
	done := map[string]bool{}
	for _, t := range targets {
		if whole[t.key] {
			if !done[t.key] {
				pre := st.get(t.key)
				st.havocKey(t.key, nil)
				done[t.key] = true
				if freshOnly[t.key] && strings.HasPrefix(e.q.sortOfKey(t.key), "(Array Int ") {
					// cells that existed before the call keep their value; individually
					// listed cells of the same array are handled below
					r := e.q.freshBound("r")
					e.v.declFun("broot", "(Int) Int")
					guard := []string{"(< " + rootOf(r) + " " + st.ap + ")"}
					for _, t2 := range targets {
						if t2.key == t.key && t2.idx != "" {
							guard = append(guard, "(not (= "+r+" "+t2.idx+"))")
						}
					}
					st.assume(fmt.Sprintf("(forall ((%[1]s Int)) (! (=> %[2]s (= (select %[3]s %[1]s) (select %[4]s %[1]s))) :pattern ((select %[3]s %[1]s))))", r, and(guard...), st.get(t.key), pre))
				}
			}
			continue
		}
		sortOf := e.q.sortOfKey(t.key)
		cellSort := strings.TrimSuffix(strings.TrimPrefix(sortOf, "(Array Int "), ")")
		nv := e.q.fresh("mod_"+t.key, cellSort)
		st.set(t.key, store(st.get(t.key), t.idx, nv))
	}
	for _, g := range ghosts {
		e.ghostGet(st, g)
		st.ghost[g] = e.q.fresh("gh_"+g, e.q.ghostSort(g))
	}
}

// ---------------------------------------------------------------------------
// inlining

func (e *Enc) inline(fr *frame, st *State, fn *ssa.Function, args, bindings []Value, prefix string, rt types.Type, pos token.Pos) Value {
	e.depth++
	defer func() { e.depth-- }()
	nf := e.newFrame(fn, prefix+"_"+sanitize(fn.Name())+"_")
	nf.inlined = true
	nf.parent = fr
	for i, p := range fn.Params {
		nf.vals[p] = args[i]
	}
	for i, fv := range fn.FreeVars {
		if i < len(bindings) {
			nf.vals[fv] = bindings[i]
		} else {
			nf.vals[fv] = e.freshValue(st, prefix+"_fv_"+fv.Name(), fv.Type())
		}
	}
	nf.con = e.v.db.Funcs[funcKey(fn)]
	nf.entrySt = st.clone()
	out, res := e.runBody(nf, st.clone())
	*st = *out
	switch len(res) {
	case 0:
		return Value{typ: types.NewTuple()}
	case 1:
		return res[0]
	}
	return Value{typ: rt, tuple: res}
}

// ---------------------------------------------------------------------------
// clause helpers

func (e *Enc) evalClause(env *SpecEnv, c *Clause) (term string) {
	t, sides := e.evalClauseSides(env, c)
	if len(sides) > 0 {
		return implies(and(sides...), t)
	}
	return t
}

func (e *Enc) evalClauseSides(env *SpecEnv, c *Clause) (term string, sides []string) {
	var sd []string
	env2 := *env
	if !e.noSide {
		env2.side = &sd
	}
	env = &env2
	defer func() { sides = dedupStrings(sd) }()
	defer func() {
		if r := recover(); r != nil {
			if se, ok := r.(specError); ok {
				e.v.specErrors = append(e.v.specErrors, fmt.Sprintf("%s:%d: %s (in %q)", c.File, c.Line, se.msg, c.Src))
				term = "false"
				return
			}
			panic(r)
		}
	}()
	term = env.evalBool(c.Expr)
	return
}

// evalClauseAssume: a clause that cannot be evaluated contributes nothing
// when assumed (the error is still reported).
func (e *Enc) evalClauseAssume(env *SpecEnv, c *Clause) string {
	n := len(e.v.specErrors)
	t, sides := e.evalClauseSides(env, c)
	if len(e.v.specErrors) > n {
		return "true"
	}
	return and(append(sides, t)...)
}

func dedupStrings(xs []string) []string {
	seen := map[string]bool{}
	var out []string
	for _, x := range xs {
		if !seen[x] && x != "true" {
			seen[x] = true
			out = append(out, x)
		}
	}
	return out
}

func (e *Enc) obligeClause(env *SpecEnv, st *State, kind string, c *Clause, pos token.Pos) {
	e.obligeClauseNamed(env, st, kind, c.Label, c, pos)
}

func (e *Enc) obligeClauseNamed(env *SpecEnv, st *State, kind, label string, c *Clause, pos token.Pos) {
	n := len(e.v.specErrors)
	t, sides := e.evalClauseSides(env, c)
	if len(e.v.specErrors) > n {
		e.oblige(st, "contract-binding", label, "false", pos)
		return
	}
	// field-invariant instances for the fields the clause reads are
	// assumptions of the state (as at loads in the code), not part of the goal
	if len(sides) > 0 {
		st.assume(and(sides...))
	}
	e.oblige(st, kind, label, t, pos)
}

// callsiteChecks asserts the enclosing function's callsite clauses for calls
// of the named callee.
func lastResultKey(callee, sort string) string { return "lastres_" + callee + "@" + sort }

func callCountKey(callee string) string { return "calls_" + callee + "@(Array Int Int)" }

func (cc CallCount) key() string {
	if cc.Iface {
		return "calls_" + cc.Callee + "@(Array Iface Int)"
	}
	return callCountKey(cc.Callee)
}

func (e *Enc) callsiteChecks(fr *frame, st *State, callee string, fn *ssa.Function, args []Value, pos token.Pos) {
	con := e.contract
	if con != nil {
		for _, cc := range con.CallCounts {
			if cc.Callee == callee && cc.Arg < len(args) {
				k := cc.key()
				cur := e.ghostGet(st, k)
				e.ghostSet(st, k, store(cur, args[cc.Arg].term, "(+ "+sel(cur, args[cc.Arg].term)+" 1)"))
				e.v.callsiteHits[con.Key+"/callcount:"+callee]++
			}
		}
	}
	if con == nil || len(con.CallSites) == 0 {
		return
	}
	fr.curPos = pos
	defer func() { fr.curPos = token.NoPos }()
	for _, cs := range con.CallSites {
		if !callsiteMatches(cs, callee, fn) {
			continue
		}
		if cs.AssumeAfter {
			continue
		}
		env := e.frameEnv(fr, st)
		e.lenientLocals(fr, st, env)
		for i, a := range args {
			env.vars[fmt.Sprintf("arg%d", i)] = a
		}
		env.where = "callsite " + callee + " at " + e.pos(pos)
		e.v.callsiteHits[con.Key+"/"+cs.Clause.Label]++
		if cs.UseLemma {
			t, _ := e.lemmaInstance(env, cs.Clause)
			st.assume(t)
			continue
		}
		if cs.Assume {
			st.assume(e.evalClauseAssume(env, cs.Clause))
			e.v.useTrusted("assume:" + con.Key + ":" + cs.Clause.Label + ": " + cs.Clause.Src)
			continue
		}
		e.obligeClauseNamed(env, st, "callsite", cs.Callee+":"+cs.Clause.Label, cs.Clause, pos)
	}
}

func callsiteMatches(cs *CallSiteSpec, callee string, fn *ssa.Function) bool {
	return cs.Callee == callee || (fn != nil && (funcDisplayName(fn) == cs.Callee || strings.HasSuffix(funcDisplayName(fn), "."+cs.Callee)))
}

// callsiteAfter applies the "assume-after" clauses of the enclosing contract
// to the result of a call that has just returned.
func (e *Enc) callsiteAfter(fr *frame, st *State, callee string, fn *ssa.Function, args []Value, res Value, pos token.Pos) {
	con := e.contract
	if con == nil || fr.inlined {
		return
	}
	fr.curPos = pos
	defer func() { fr.curPos = token.NoPos }()
	for _, cs := range con.CallSites {
		if !cs.AssumeAfter || !callsiteMatches(cs, callee, fn) {
			continue
		}
		env := e.frameEnv(fr, st)
		e.lenientLocals(fr, st, env)
		for i, a := range args {
			env.vars[fmt.Sprintf("arg%d", i)] = a
		}
		if len(res.tuple) > 0 {
			env.results = res.tuple
		} else if res.term != "" {
			env.results = []Value{res}
		}
		env.where = "callsite (after) " + callee + " at " + e.pos(pos)
		e.v.callsiteHits[con.Key+"/"+cs.Clause.Label]++
		st.assume(e.evalClauseAssume(env, cs.Clause))
		e.v.useTrusted("assume:" + con.Key + ":" + cs.Clause.Label + ": after " + callee + ": " + cs.Clause.Src)
	}
}

func (e *Enc) sendSiteChecks(fr *frame, st *State, ch, val Value, cond string, pos token.Pos) {
	con := e.contract
	if con == nil || len(con.SendSites) == 0 {
		return
	}
	fr.curPos = pos
	defer func() { fr.curPos = token.NoPos }()
	for _, cs := range con.SendSites {
		env := e.frameEnv(fr, st)
		if f := strings.Fields(cs.Callee); len(f) == 2 {
			// "tag ElemType": the clause is about sends on channels of that element type
			want, ok := env.tryType(f[1])
			if !ok {
				e.v.specErrors = append(e.v.specErrors, fmt.Sprintf("%s:%d: sendsite: unknown channel element type %s", cs.Clause.File, cs.Clause.Line, f[1]))
				continue
			}
			ct, isChan := ch.typ.Underlying().(*types.Chan)
			if !isChan || !types.Identical(ct.Elem(), want) {
				continue
			}
		}
		e.lenientLocals(fr, st, env)
		env.vars["ch"] = ch
		env.vars["m"] = val
		env.where = "sendsite at " + e.pos(pos)
		e.v.callsiteHits[con.Key+"/"+cs.Clause.Label]++
		if cs.UseLemma {
			t, _ := e.lemmaInstance(env, cs.Clause)
			st.assume(t)
			continue
		}
		e.obligeClauseNamed(env, st, "sendsite", cs.Callee+":"+cs.Clause.Label, cs.Clause, pos)
	}
}

// frameEnv builds the name environment visible at the current point of a
// frame: parameters, free variables, and named locals that dominate.
func (e *Enc) frameEnv(fr *frame, st *State) *SpecEnv {
	vars := map[string]Value{}
	for _, p := range fr.fn.Params {
		if v, ok := fr.vals[p]; ok {
			vars[p.Name()] = v
		}
	}
	for _, fv := range fr.fn.FreeVars {
		if v, ok := fr.vals[fv]; ok {
			// captured variable: expose its current content under its name
			if _, isPtr := v.typ.Underlying().(*types.Pointer); isPtr {
				lv := e.loadPtr(st, v, 0)
				vars[fv.Name()] = lv
			}
		}
	}
	at := fr.curBlock
	if fr.envBlock != nil {
		at = fr.envBlock
	}
	ambiguous := map[string]bool{}
	if at != nil {
		var defNames []string
		for name := range fr.namedDefs {
			defNames = append(defNames, name)
		}
		sort.Strings(defNames)
		for _, name := range defNames {
			if _, shadow := vars[name]; shadow {
				continue
			}
			d, ok, amb := fr.resolveNamed(name, at)
			if amb {
				ambiguous[name] = true
				continue
			}
			if !ok {
				continue
			}
			if d.isAddr {
				if _, isPtr := d.val.typ.Underlying().(*types.Pointer); isPtr {
					vars[name] = e.loadPtr(st, d.val, 0)
				}
			} else {
				vars[name] = d.val
			}
		}
	}
	// a closure called in place also sees the variables of the function it is
	// inlined into (as defined at the call), unless it declares the same name
	if fr.inlined && fr.parent != nil && fr.fn.Parent() == fr.parent.fn {
		penv := e.frameEnv(fr.parent, st)
		for name, val := range penv.vars {
			if _, shadow := vars[name]; !shadow && !ambiguous[name] {
				vars[name] = val
			}
		}
	}
	env := &SpecEnv{e: e, pkg: fr.fn.Pkg.Pkg, vars: vars, cur: st, old: e.entry, ambiguous: ambiguous}
	if fr.entrySt != nil {
		env.old = fr.entrySt
	}
	return env
}

// ---------------------------------------------------------------------------
// loop specs

func (e *Enc) loopSpecFor(fr *frame, head *ssa.BasicBlock) *LoopSpec {
	if fr.loopSpecs == nil {
		fr.loopSpecs = map[*ssa.BasicBlock]*LoopSpec{}
		con := fr.con
		if con != nil && len(con.Loops) > 0 {
			e.bindLoops(fr, con)
		}
	}
	return fr.loopSpecs[head]
}

// bindLoops matches the contract's loop specs to SSA loop headers via the
// source text of the loops, in source order.
func (e *Enc) bindLoops(fr *frame, con *Contract) {
	syn := fr.fn.Syntax()
	if syn == nil {
		return
	}
	var body *ast.BlockStmt
	switch n := syn.(type) {
	case *ast.FuncDecl:
		body = n.Body
	case *ast.FuncLit:
		body = n.Body
	}
	if body == nil {
		return
	}
	type astLoop struct{ sel string }
	var loops []astLoop
	ast.Inspect(body, func(n ast.Node) bool {
		switch l := n.(type) {
		case *ast.FuncLit:
			return false
		case *ast.RangeStmt:
			loops = append(loops, astLoop{"range " + e.v.srcText(l.X)})
		case *ast.ForStmt:
			if l.Cond != nil {
				loops = append(loops, astLoop{e.v.srcText(l.Cond)})
			} else {
				loops = append(loops, astLoop{"for"})
			}
		}
		return true
	})
	var heads []*ssa.BasicBlock
	for h := range fr.loops {
		heads = append(heads, h)
	}
	sort.Slice(heads, func(i, j int) bool { return heads[i].Index < heads[j].Index })
	if len(heads) != len(loops) {
		e.v.specErrors = append(e.v.specErrors, fmt.Sprintf("%s: %d source loops but %d SSA loops; cannot bind loop contracts", con.Header, len(loops), len(heads)))
		return
	}
	for _, ls := range con.Loops {
		n := 0
		for i, al := range loops {
			if normalizeSpace(al.sel) == normalizeSpace(ls.Selector) {
				n++
				if ls.Ordinal == 0 || ls.Ordinal == n {
					fr.loopSpecs[heads[i]] = ls
					ls.bound = true
					if ls.Ordinal != 0 {
						break
					}
				}
			}
		}
		if !ls.bound {
			e.v.specErrors = append(e.v.specErrors, fmt.Sprintf("%s:%d: loop %q not found in %s", con.File, ls.Line, ls.Selector, con.Header))
		}
	}
}

func normalizeSpace(s string) string { return strings.Join(strings.Fields(s), " ") }

// loopEnv: names visible in a loop invariant at the header.
func (e *Enc) loopEnv(fr *frame, head *ssa.BasicBlock, st *State, spec *LoopSpec) *SpecEnv {
	env := e.frameEnv(fr, st)
	// phis of this header by variable name
	for _, ins := range head.Instrs {
		phi, ok := ins.(*ssa.Phi)
		if !ok {
			break
		}
		if phi.Comment != "" {
			// note: the hidden index of "for i := range slice" is exposed as
			// rangeindex (it is i-1 at the loop header, -1 before the first iteration)
			env.vars[phi.Comment] = fr.vals[phi]
			if phi.Comment == "rangeint.iter" {
				// "for b := range n": the loop variable at the loop header
				env.vars["rangeiter"] = fr.vals[phi]
			}
		}
	}
	// the iterator of a range-over-map loop
	for b := range fr.loops[head].blocks {
		for _, ins := range b.Instrs {
			if nx, ok := ins.(*ssa.Next); ok && b == head || ok && env.iter == nil {
				if v, ok2 := fr.vals[nx.Iter]; ok2 && v.iter != nil && !v.iter.isString {
					if b == head {
						env.iter = v.iter
					}
				}
			}
		}
	}
	if env.iter == nil {
		// iterator defined before the loop (Range instr) whose Next is in the header
		for _, ins := range head.Instrs {
			if nx, ok := ins.(*ssa.Next); ok {
				if v, ok2 := fr.vals[nx.Iter]; ok2 {
					env.iter = v.iter
				}
			}
		}
	}
	env.where = "loop invariant"
	return env
}

// lenientLocals: in call-site / send-site clauses, a local variable of the
// function that has no (unique) definition at this site stands for an
// arbitrary value of its type - the clause must hold whatever it is.
func (e *Enc) lenientLocals(fr *frame, st *State, env *SpecEnv) {
	if fr.localTypes == nil {
		fr.localTypes = map[string]types.Type{}
		clash := map[string]bool{}
		for _, b := range fr.fn.Blocks {
			for _, ins := range b.Instrs {
				if d, ok := ins.(*ssa.DebugRef); ok {
					if obj, ok := d.Object().(*types.Var); ok && obj != nil {
						if t, seen := fr.localTypes[obj.Name()]; seen && !types.Identical(t, obj.Type()) {
							clash[obj.Name()] = true
						}
						fr.localTypes[obj.Name()] = obj.Type()
					}
				}
			}
		}
		for n := range clash {
			delete(fr.localTypes, n)
		}
		fr.lenient = map[string]Value{}
	}
	var ltNames []string
	for name := range fr.localTypes {
		ltNames = append(ltNames, name)
	}
	sort.Strings(ltNames)
	for _, name := range ltNames {
		t := fr.localTypes[name]
		if _, ok := env.vars[name]; ok {
			continue
		}
		v, ok := fr.lenient[name]
		if !ok {
			v = Value{term: e.q.fresh("any_"+name, e.u.sortOf(t)), typ: t}
			fr.lenient[name] = v
		}
		env.vars[name] = v
		delete(env.ambiguous, name)
	}
}

// lemmaInstance evaluates "L(args)" to the formula (hyps => concls) of the
// separately proved lemma L, with the current state as new state and the
// function's entry state as old state.
func (e *Enc) lemmaInstance(env *SpecEnv, c *Clause) (string, bool) {
	x := c.Expr
	if x.Op != "call" {
		e.v.specErrors = append(e.v.specErrors, fmt.Sprintf("%s:%d: lemma application must be L(args)", c.File, c.Line))
		return "true", false
	}
	var lm *Lemma
	for _, l := range e.v.db.Lemmas {
		if l.Name == x.Name {
			lm = l
		}
	}
	if lm == nil || len(lm.Params) != len(x.Args) {
		e.v.specErrors = append(e.v.specErrors, fmt.Sprintf("%s:%d: unknown lemma %s/%d", c.File, c.Line, x.Name, len(x.Args)))
		return "true", false
	}
	ok := true
	var res string
	func() {
		defer func() {
			if r := recover(); r != nil {
				if se, isSpec := r.(specError); isSpec {
					e.v.specErrors = append(e.v.specErrors, fmt.Sprintf("%s:%d: %s", c.File, c.Line, se.msg))
					ok = false
					res = "true"
					return
				}
				panic(r)
			}
		}()
		lenv := *env
		lenv.pkg = e.v.pkgByPath[lm.Pkg]
		lenv.vars = map[string]Value{}
		lenv.bound = nil
		lenv.where = "lemma " + lm.Name + " applied"
		for i, p := range lm.Params {
			t := lenv.resolveType(p.Type)
			lenv.vars[p.Name] = env.coerce(env.eval(x.Args[i]), t)
		}
		var hyps, concls []string
		for _, h := range lm.Hyps {
			hyps = append(hyps, lenv.evalBool(h.Expr))
		}
		for _, cc := range lm.Concl {
			concls = append(concls, lenv.evalBool(cc.Expr))
		}
		res = implies(and(hyps...), and(concls...))
	}()
	e.v.lemmasUsed[lm.Name] = true
	return res, ok
}

// dispatchFacts: for an interface method declared "dispatch", the result for
// each implementation in the repository whose method body is a single
// "return <constant>" is that constant (read from the implementation's SSA).
func (e *Enc) dispatchFacts(st *State, c *ssa.CallCommon, recv Value, res Value) {
	it, ok := c.Value.Type().Underlying().(*types.Interface)
	if !ok || res.term == "" {
		return
	}
	var pkgPaths []string
	for p := range e.v.ssaPkgs {
		if strings.HasPrefix(p, repoMod) {
			pkgPaths = append(pkgPaths, p)
		}
	}
	sort.Strings(pkgPaths)
	for _, pp := range pkgPaths {
		pkg := e.v.pkgByPath[pp]
		if pkg == nil {
			continue
		}
		for _, name := range pkg.Scope().Names() {
			tn, ok := pkg.Scope().Lookup(name).(*types.TypeName)
			if !ok || tn.IsAlias() {
				continue
			}
			if _, isIface := tn.Type().Underlying().(*types.Interface); isIface {
				continue
			}
			for _, t := range []types.Type{tn.Type(), types.NewPointer(tn.Type())} {
				if !types.Implements(t, it) {
					continue
				}
				sel := e.v.prog.MethodSets.MethodSet(t).Lookup(c.Method.Pkg(), c.Method.Name())
				if sel == nil {
					continue
				}
				fn := e.v.prog.MethodValue(sel)
				if fn == nil || len(fn.Blocks) != 1 {
					continue
				}
				ret, ok := fn.Blocks[0].Instrs[len(fn.Blocks[0].Instrs)-1].(*ssa.Return)
				if !ok || len(ret.Results) != 1 {
					continue
				}
				k, ok := ret.Results[0].(*ssa.Const)
				if !ok {
					continue
				}
				st.assume(implies(fmt.Sprintf("(= (itag %s) %d)", recv.term, e.u.tagOf(t)), eq(res.term, e.constValue(k).term)))
			}
		}
	}
}
