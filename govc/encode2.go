package main

// Encoder part 2: slices, maps, ranges, channels, calls, defers, loops.

import (
	"fmt"
	"go/token"
	"go/types"
	"sort"
	"strings"

	"golang.org/x/tools/go/ssa"
)

const (
	ghostSendCount = "sendcount@(Array Int Int)"
	ghostClosed    = "closed@(Array Int Bool)"
	ghostRecvCount = "recvcount@(Array Int Int)"
	// channel the most recent select received from (-1: none / a send or default case)
	ghostLastSel = "lastsel@Int"
)

func (e *Enc) ghostGet(st *State, key string) string {
	if t, ok := st.ghost[key]; ok {
		return t
	}
	// entry value shared by all states of this query
	return e.q.ghostEntry(key)
}

func (e *Enc) ghostSet(st *State, key, term string) {
	st.ghost[key] = e.q.define("g_"+key, e.q.ghostSort(key), term)
}

// ---------------------------------------------------------------------------
// slices

func (e *Enc) sliceOp(fr *frame, st *State, x *ssa.Slice) Value {
	base := fr.val(st, x.X)
	opt := func(v ssa.Value, def string) string {
		if v == nil {
			return def
		}
		return fr.val(st, v).term
	}
	switch bt := x.X.Type().Underlying().(type) {
	case *types.Basic: // string
		ln := "(str.len " + base.term + ")"
		lo := opt(x.Low, "0")
		hi := opt(x.High, ln)
		e.oblige(st, "nopanic", "slice-bounds", fmt.Sprintf("(and (<= 0 %s) (<= %s %s) (<= %s %s))", lo, lo, hi, hi, ln), x.Pos())
		return Value{term: e.q.define(fr.prefix+x.Name(), sortString, fmt.Sprintf("(str.substr %s %s (- %s %s))", base.term, lo, hi, lo)), typ: x.Type()}
	case *types.Slice:
		lo := opt(x.Low, "0")
		hi := opt(x.High, "(s_len "+base.term+")")
		capT := "(s_cap " + base.term + ")"
		mx := opt(x.Max, capT)
		e.oblige(st, "nopanic", "slice-bounds", fmt.Sprintf("(and (<= 0 %s) (<= %s %s) (<= %s %s) (<= %s %s))", lo, lo, hi, hi, mx, mx, capT), x.Pos())
		newOff := e.q.idxOf(base.term, lo)
		if lo == "0" {
			newOff = e.q.offOf(base.term)
		}
		lenT := "(- " + hi + " " + lo + ")"
		capT2 := "(- " + mx + " " + lo + ")"
		if lo == "0" {
			lenT, capT2 = hi, mx
		}
		t := fmt.Sprintf("(mk_slice (s_arr %s) %s %s %s)", base.term, newOff, lenT, capT2)
		// slicing a nil slice yields nil
		t = ite("(= (s_arr "+base.term+") 0)", "nil_slice", t)
		res := e.q.define(fr.prefix+x.Name(), sortSlice, t)
		if newOff == "0" {
			e.q.markOff0(res)
		}
		return Value{term: res, typ: x.Type()}
	case *types.Pointer:
		at := bt.Elem().Underlying().(*types.Array)
		n := fmt.Sprint(at.Len())
		lo := opt(x.Low, "0")
		hi := opt(x.High, n)
		mx := opt(x.Max, n)
		e.oblige(st, "nopanic", "slice-bounds", fmt.Sprintf("(and (<= 0 %s) (<= %s %s) (<= %s %s) (<= %s %s))", lo, lo, hi, hi, mx, mx, n), x.Pos())
		if base.addr != nil {
			e.q.note("unsupported: slicing an array inside a value cell in %s", fr.fn.Name())
			return e.freshValue(st, fr.prefix+x.Name(), x.Type())
		}
		e.checkNonNilPtr(st, base, x.Pos(), "slice of array")
		t := fmt.Sprintf("(mk_slice %s %s (- %s %s) (- %s %s))", base.term, lo, hi, lo, mx, lo)
		if lo == "0" {
			t = fmt.Sprintf("(mk_slice %s 0 %s %s)", base.term, hi, mx)
		}
		res := e.q.define(fr.prefix+x.Name(), sortSlice, t)
		if lo == "0" {
			e.q.markOff0(res)
		}
		return Value{term: res, typ: x.Type()}
	}
	panic("slice of " + x.X.Type().String())
}

func (e *Enc) makeSlice(fr *frame, st *State, x *ssa.MakeSlice) Value {
	ln := fr.val(st, x.Len)
	cp := fr.val(st, x.Cap)
	e.oblige(st, "nopanic", "makeslice-len", fmt.Sprintf("(and (<= 0 %s) (<= %s %s))", ln.term, ln.term, cp.term), x.Pos())
	ref := e.q.define(fr.prefix+x.Name()+"_arr", sortInt, st.ap)
	st.ap = e.q.define("ap", sortInt, "(+ "+st.ap+" 1)")
	st.assume("(> " + ref + " 0)")
	et := x.Type().Underlying().(*types.Slice).Elem()
	ek := e.elemKey(et)
	st.set(ek, store(st.get(ek), ref, "((as const (Array Int "+e.u.sortOf(et)+")) "+e.u.zero(et)+")"))
	res := e.q.define(fr.prefix+x.Name(), sortSlice, fmt.Sprintf("(mk_slice %s 0 %s %s)", ref, ln.term, cp.term))
	e.q.markOff0(res)
	return Value{term: res, typ: x.Type()}
}

// singleVarargs reports whether v is the one-element varargs slice the
// compiler builds for append(s, x): slice of a fresh [1]T.
func singleVarargs(v ssa.Value) bool {
	sl, ok := v.(*ssa.Slice)
	if !ok || sl.Low != nil || sl.High != nil || sl.Max != nil {
		return false
	}
	al, ok := sl.X.(*ssa.Alloc)
	if !ok {
		return false
	}
	at, ok := al.Type().Underlying().(*types.Pointer).Elem().Underlying().(*types.Array)
	return ok && at.Len() == 1
}

// appendOne models append(s, x) for a single element without quantifiers.
// The result keeps the offset of s also when a new backing array is taken:
// the new array is the old one with position off+len overwritten, so the
// elements before the slice window and between the new length and capacity
// are those of the old array rather than zero values - an
// over-approximation (more states than Go allows) outside the window.
func (e *Enc) appendOne(fr *frame, st *State, s, t Value, rt types.Type, name string) Value {
	et := rt.Underlying().(*types.Slice).Elem()
	ek := e.elemKey(et)
	sl := e.q.define("app_slen", sortInt, "(s_len "+s.term+")")
	fits := e.q.define("app_fits", sortBool, fmt.Sprintf("(and (<= (+ %s 1) (s_cap %s)) (not (= (s_arr %s) 0)))", sl, s.term, s.term))
	heapE := st.get(ek)
	newRef := e.q.define("app_ref", sortInt, st.ap)
	st.ap = e.q.define("ap", sortInt, "(+ "+st.ap+" 1)")
	st.assume("(> " + newRef + " 0)")
	newCap := e.q.fresh("app_cap", sortInt)
	st.assume("(>= " + newCap + " (+ " + sl + " 1))")
	arr := e.q.define("app_arr", sortInt, ite(fits, "(s_arr "+s.term+")", newRef))
	sOff := e.q.offOf(s.term)
	startT := sl
	if sOff != "0" {
		startT = "(+ " + sOff + " " + sl + ")"
	}
	src := sel(sel(heapE, "(s_arr "+t.term+")"), e.q.idxOf(t.term, "0"))
	// a nil slice has no backing array: its (arbitrary) contents must not leak
	oldTarget := sel(heapE, "(s_arr "+s.term+")")
	na := e.q.define("app_elems", "(Array Int "+e.u.sortOf(et)+")", store(oldTarget, startT, src))
	st.set(ek, store(heapE, arr, na))
	res := fmt.Sprintf("(mk_slice %s %s (+ %s 1) %s)", arr, sOff, sl, ite(fits, "(s_cap "+s.term+")", newCap))
	out := e.q.define(name, sortSlice, res)
	if sOff == "0" {
		e.q.markOff0(out)
	}
	return Value{term: out, typ: rt}
}

// appendOp models append(s, t...).
func (e *Enc) appendOp(fr *frame, st *State, s, t Value, rt types.Type, name string, tIsString bool) Value {
	et := rt.Underlying().(*types.Slice).Elem()
	ek := e.elemKey(et)
	es := e.u.sortOf(et)
	var n string
	if tIsString {
		n = "(str.len " + t.term + ")"
	} else {
		n = "(s_len " + t.term + ")"
	}
	n = e.q.define("app_n", sortInt, n)
	sl := e.q.define("app_slen", sortInt, "(s_len "+s.term+")")
	fits := e.q.define("app_fits", sortBool, fmt.Sprintf("(and (<= (+ %s %s) (s_cap %s)) (not (= (s_arr %s) 0)))", sl, n, s.term, s.term))
	// appending nothing returns s unchanged
	heapE := st.get(ek)
	newRef := e.q.define("app_ref", sortInt, st.ap)
	st.ap = e.q.define("ap", sortInt, "(+ "+st.ap+" 1)")
	st.assume("(> " + newRef + " 0)")
	newCap := e.q.fresh("app_cap", sortInt)
	st.assume("(>= " + newCap + " (+ " + sl + " " + n + "))")
	arr := e.q.define("app_arr", sortInt, ite(fits, "(s_arr "+s.term+")", newRef))
	sOff := e.q.offOf(s.term)
	off := e.q.define("app_off", sortInt, ite(fits, sOff, "0"))
	// new contents of the target backing array
	na := e.q.fresh("app_elems", "(Array Int "+es+")")
	oldTarget := sel(heapE, "(s_arr "+s.term+")")
	j := e.q.freshBound("j")
	var srcElem string
	if tIsString {
		srcElem = "(str.to_code (str.at " + t.term + " " + j + "))"
	} else {
		srcElem = sel(sel(heapE, "(s_arr "+t.term+")"), e.q.idxOf(t.term, j))
	}
	startT := sl
	if sOff != "0" {
		startT = "(+ " + sOff + " " + sl + ")"
	}
	// in place: positions off+len .. off+len+n-1 get t's elements, others unchanged
	inPlace := fmt.Sprintf("(forall ((%[1]s Int)) (= (select %[2]s %[1]s) (ite (and (<= %[4]s %[1]s) (< %[1]s (+ %[4]s %[5]s))) %[6]s (select %[7]s %[1]s))))",
		j, na, "0", startT, n, strings.ReplaceAll(srcElem, j, "(- "+j+" "+startT+")"), oldTarget)
	// fresh: first len from s, next n from t
	realloc := fmt.Sprintf("(forall ((%[1]s Int)) (and (=> (and (<= 0 %[1]s) (< %[1]s %[2]s)) (= (select %[3]s %[1]s) (select %[4]s %[8]s))) (=> (and (<= %[2]s %[1]s) (< %[1]s (+ %[2]s %[6]s))) (= (select %[3]s %[1]s) %[7]s))))",
		j, sl, na, oldTarget, s.term, n, strings.ReplaceAll(srcElem, j, "(- "+j+" "+sl+")"), e.q.idxOf(s.term, j))
	st.assume(ite(fits, inPlace, realloc))
	st.set(ek, store(heapE, arr, na))
	res := fmt.Sprintf("(mk_slice %s %s (+ %s %s) %s)", arr, off, sl, n, ite(fits, "(s_cap "+s.term+")", newCap))
	// append(nil, <empty>) == nil ; append(s, <empty>) == s
	res = ite("(= "+n+" 0)", s.term, res)
	out := e.q.define(name, sortSlice, res)
	if sOff == "0" {
		e.q.markOff0(out)
	}
	return Value{term: out, typ: rt}
}

// ---------------------------------------------------------------------------
// maps

func (e *Enc) makeMap(fr *frame, st *State, x *ssa.MakeMap) Value {
	ref := e.q.define(fr.prefix+x.Name(), sortInt, st.ap)
	st.ap = e.q.define("ap", sortInt, "(+ "+st.ap+" 1)")
	st.assume("(> " + ref + " 0)")
	e.initMap(st, x.Type(), ref)
	return Value{term: ref, typ: x.Type()}
}

func (e *Enc) initMap(st *State, t types.Type, ref string) {
	m := t.Underlying().(*types.Map)
	dom, val, ln := e.mapKeys(t)
	ks := e.u.sortOf(m.Key())
	vs := e.u.sortOf(m.Elem())
	st.set(dom, store(st.get(dom), ref, "((as const (Array "+ks+" Bool)) false)"))
	st.set(val, store(st.get(val), ref, "((as const (Array "+ks+" "+vs+")) "+e.u.zero(m.Elem())+")"))
	st.set(ln, store(st.get(ln), ref, "0"))
}

func (e *Enc) mapLenFacts(st *State, t types.Type, m string) {
	dom, _, ln := e.mapKeys(t)
	ks := e.u.sortOf(t.Underlying().(*types.Map).Key())
	k := e.q.freshBound("k")
	l := sel(st.get(ln), m)
	d := sel(st.get(dom), m)
	// no map holds 2^62 entries (it would not fit in memory)
	st.assume(fmt.Sprintf("(and (>= %[1]s 0) (<= %[1]s 4611686018427387904) (= (= %[1]s 0) (forall ((%[2]s %[3]s)) (not (select %[4]s %[2]s)))))", l, k, ks, d))
}

func (e *Enc) lookup(fr *frame, st *State, x *ssa.Lookup) Value {
	m := fr.val(st, x.X)
	k := fr.val(st, x.Index)
	if mt, ok := x.X.Type().Underlying().(*types.Map); ok {
		dom, val, _ := e.mapKeys(x.X.Type())
		kt := e.mapKeyTerm(st, k, mt.Key())
		okT := e.q.define(fr.prefix+x.Name()+"_ok", sortBool, and("(not (= "+m.term+" 0))", sel(sel(st.get(dom), m.term), kt)))
		v := e.q.define(fr.prefix+x.Name()+"_v", e.u.sortOf(mt.Elem()), ite(okT, sel(sel(st.get(val), m.term), kt), e.u.zero(mt.Elem())))
		st.assume(e.wf(st, mt.Elem(), v))
		if t := e.mapInvTerm(st, x.X.Type(), Value{term: v, typ: mt.Elem()}); t != "true" {
			st.assume(implies(okT, t))
		}
		if x.CommaOk {
			return Value{typ: x.Type(), tuple: []Value{{term: v, typ: mt.Elem()}, {term: okT, typ: types.Typ[types.Bool]}}}
		}
		return Value{term: v, typ: mt.Elem()}
	}
	// string index
	e.oblige(st, "nopanic", "index", "(and (<= 0 "+k.term+") (< "+k.term+" (str.len "+m.term+")))", x.Pos())
	return Value{term: "(str.to_code (str.at " + m.term + " " + k.term + "))", typ: x.Type()}
}

func (e *Enc) mapKeyTerm(st *State, k Value, kt types.Type) string {
	return k.term
}

func (e *Enc) mapUpdate(fr *frame, st *State, x *ssa.MapUpdate) {
	m := fr.val(st, x.Map)
	k := fr.val(st, x.Key)
	v := fr.val(st, x.Value)
	e.oblige(st, "nopanic", "nil-map-store", "(not (= "+m.term+" 0))", x.Pos())
	if t := e.mapInvTerm(st, x.Map.Type(), v); t != "true" {
		e.oblige(st, "mapinv", shortTypeName(x.Map.Type()), t, x.Pos())
	}
	e.mapStore(st, x.Map.Type(), m.term, k.term, e.materialize(st, v))
}

func (e *Enc) mapStore(st *State, t types.Type, m, k, v string) {
	dom, val, ln := e.mapKeys(t)
	d := st.get(dom)
	had := sel(sel(d, m), k)
	l := st.get(ln)
	st.set(ln, store(l, m, "(+ "+sel(l, m)+" "+ite(had, "0", "1")+")"))
	st.set(dom, store(d, m, store(sel(d, m), k, "true")))
	vv := st.get(val)
	st.set(val, store(vv, m, store(sel(vv, m), k, v)))
}

func (e *Enc) mapDelete(st *State, t types.Type, m, k string) {
	dom, _, ln := e.mapKeys(t)
	d := st.get(dom)
	had := and("(not (= "+m+" 0))", sel(sel(d, m), k))
	l := st.get(ln)
	// deleting from the nil map is a no-op; index 0 is never a real map
	st.set(ln, store(l, m, "(- "+sel(l, m)+" "+ite(had, "1", "0")+")"))
	st.set(dom, store(d, m, store(sel(d, m), k, "false")))
}

// ---------------------------------------------------------------------------
// range

func (e *Enc) rangeInit(fr *frame, st *State, x *ssa.Range) Value {
	v := fr.val(st, x.X)
	it := &iterInfo{}
	if mt, ok := x.X.Type().Underlying().(*types.Map); ok {
		it.mapVal = v
		it.keySort = e.u.sortOf(mt.Key())
		it.ghost = fmt.Sprintf("visited_%s%s@(Array %s Bool)", fr.prefix, x.Name(), it.keySort)
		e.ghostSet(st, it.ghost, "((as const (Array "+it.keySort+" Bool)) false)")
		it.cntGhost = fmt.Sprintf("visited_n_%s%s@Int", fr.prefix, x.Name())
		e.ghostSet(st, it.cntGhost, "0")
		_, _, lnKey := e.mapKeys(x.X.Type())
		e.mapLenFacts(st, x.X.Type(), v.term)
		it.lenStart = e.q.define(fr.prefix+x.Name()+"_len0", sortInt, ite("(= "+v.term+" 0)", "0", sel(st.get(lnKey), v.term)))
	} else {
		it.isString = true
		it.str = v.term
		it.posGhost = fmt.Sprintf("strpos_%s%s@Int", fr.prefix, x.Name())
		e.ghostSet(st, it.posGhost, "0")
	}
	return Value{term: "0", typ: x.Type(), iter: it}
}

func (e *Enc) rangeNext(fr *frame, st *State, x *ssa.Next) Value {
	itv := fr.val(st, x.Iter)
	it := itv.iter
	tup := x.Type().(*types.Tuple)
	boolT := types.Typ[types.Bool]
	if it.isString {
		pos := st.ghost[it.posGhost]
		ok := e.q.define(fr.prefix+x.Name()+"_ok", sortBool, "(< "+pos+" (str.len "+it.str+"))")
		r := e.q.define(fr.prefix+x.Name()+"_r", sortInt, "(str.to_code (str.at "+it.str+" "+pos+"))")
		e.ghostSet(st, it.posGhost, ite(ok, "(+ "+pos+" 1)", pos))
		e.q.note("abstraction: range over string advances one code point per iteration (ASCII model)")
		return Value{typ: x.Type(), tuple: []Value{{term: ok, typ: boolT}, {term: pos, typ: types.Typ[types.Int]}, {term: r, typ: types.Typ[types.Rune]}}}
	}
	mt := it.mapVal.typ.Underlying().(*types.Map)
	dom, val, _ := e.mapKeys(it.mapVal.typ)
	m := it.mapVal.term
	ok := e.q.fresh(fr.prefix+x.Name()+"_ok", sortBool)
	k := e.q.fresh(fr.prefix+x.Name()+"_k", it.keySort)
	vis := st.ghost[it.ghost]
	d := sel(st.get(dom), m)
	kb := e.q.freshBound("k")
	st.assume(and(
		implies(ok, and("(not (= "+m+" 0))", sel(d, k), not(sel(vis, k)))),
		implies(not(ok), fmt.Sprintf("(forall ((%[1]s %[2]s)) (=> (and (not (= %[3]s 0)) (select %[4]s %[1]s)) (select %[5]s %[1]s)))", kb, it.keySort, m, d, vis)),
	))
	st.assume(implies(ok, e.wf(st, mt.Key(), k)))
	v := e.q.define(fr.prefix+x.Name()+"_v", e.u.sortOf(mt.Elem()), sel(sel(st.get(val), m), k))
	st.assume(implies(ok, e.wf(st, mt.Elem(), v)))
	if t := e.mapInvTerm(st, it.mapVal.typ, Value{term: v, typ: mt.Elem()}); t != "true" {
		st.assume(implies(ok, t))
	}
	e.ghostSet(st, it.ghost, ite(ok, store(vis, k, "true"), vis))
	if cnt, has := st.ghost[it.cntGhost]; has && it.cntGhost != "" {
		// a range over a map into which nothing is inserted meanwhile performs
		// at most as many iterations as the map had entries when it started
		if !e.loopInsertsInto(fr, x, it.mapVal.typ) {
			st.assume(implies(ok, "(< "+cnt+" "+it.lenStart+")"))
			if !e.loopDeletesFrom(fr, x, it.mapVal.typ) {
				// an unmodified map is iterated completely: exactly len iterations
				st.assume(implies(not(ok), "(= "+cnt+" "+it.lenStart+")"))
			}
		}
		st.assume("(>= " + cnt + " 0)")
		e.ghostSet(st, it.cntGhost, ite(ok, "(+ "+cnt+" 1)", cnt))
	}
	kv := Value{term: k, typ: mt.Key()}
	vv := Value{term: v, typ: mt.Elem()}
	_ = tup
	return Value{typ: x.Type(), tuple: []Value{{term: ok, typ: boolT}, kv, vv}, iter: it}
}

// ---------------------------------------------------------------------------
// channels

func (e *Enc) makeChan(fr *frame, st *State, x *ssa.MakeChan) Value {
	ref := e.q.define(fr.prefix+x.Name(), sortInt, st.ap)
	st.ap = e.q.define("ap", sortInt, "(+ "+st.ap+" 1)")
	st.assume("(> " + ref + " 0)")
	e.ghostSet(st, ghostClosed, store(e.ghostGet(st, ghostClosed), ref, "false"))
	e.ghostSet(st, ghostSendCount, store(e.ghostGet(st, ghostSendCount), ref, "0"))
	sz := fr.val(st, x.Size)
	e.v.declFun("chancap", "(Int) Int")
	st.assume("(= (chancap " + ref + ") " + sz.term + ")")
	return Value{term: ref, typ: x.Type()}
}

// syncPoint models a blocking operation: other goroutines may have changed
// every shared location. State owned by the running component is kept.
func (e *Enc) syncPoint(fr *frame, st *State, why string) {
	st.havocAll(e.localRefs, e.ownedKeyFilter())
	for _, k := range sortedKeys(st.ghost) {
		if strings.HasPrefix(k, "visited_") || strings.HasPrefix(k, "strpos_") {
			continue
		}
		if k == ghostSendCount || k == ghostRecvCount {
			continue // only this goroutine's sends / receives are counted
		}
		st.ghost[k] = e.q.fresh("gh_"+k, e.q.ghostSort(k))
	}
}

func (e *Enc) ownedKeyFilter() func(string) bool {
	comp := ""
	if e.contract != nil {
		comp = e.contract.On
	}
	if comp == "" {
		return nil
	}
	owned := e.v.ownedKeys(comp)
	return func(key string) bool {
		for _, p := range owned {
			if strings.HasPrefix(key, p) {
				return true
			}
		}
		return false
	}
}

// chanInvTerm: the declared invariant of values sent on channels with element
// type et, for value v ("true" if there is none).
func (e *Enc) chanInvTerm(st *State, et types.Type, v Value) string {
	for _, ci := range e.v.db.ChanInvs {
		pkg := e.v.pkgByPath[ci.Pkg]
		env := &SpecEnv{e: e, pkg: pkg, vars: map[string]Value{"v": v}, cur: st, where: "chaninv " + ci.TypeText}
		want, ok := env.tryType(ci.TypeText)
		if !ok {
			e.v.specErrors = append(e.v.specErrors, fmt.Sprintf("%s:%d: chaninv: unknown type %s", ci.File, ci.Line, ci.TypeText))
			continue
		}
		if !types.Identical(want, et) {
			continue
		}
		e.v.useTrusted("chaninv:" + ci.TypeText + " (checked at every send in a verified function, assumed at receives)")
		return e.evalClause(env, ci.Clause)
	}
	return "true"
}

func (e *Enc) recordSend(fr *frame, st *State, ch, val Value, cond string, pos token.Pos) {
	if ct, ok := ch.typ.Underlying().(*types.Chan); ok && len(e.v.db.ChanInvs) > 0 {
		if t := e.chanInvTerm(st, ct.Elem(), val); t != "true" {
			e.oblige(st, "chaninv", shortTypeName(ct.Elem()), t, pos)
		}
	}
	cnt := e.ghostGet(st, ghostSendCount)
	e.ghostSet(st, ghostSendCount, ite(cond, store(cnt, ch.term, "(+ "+sel(cnt, ch.term)+" 1)"), cnt))
	e.sendSiteChecks(fr, st, ch, val, cond, pos)
}

func (e *Enc) send(fr *frame, st *State, x *ssa.Send) {
	ch := fr.val(st, x.Chan)
	v := fr.val(st, x.X)
	// a plain send on a nil channel blocks forever
	e.oblige(st, "nohang", "nil-chan-send", "(not (= "+ch.term+" 0))", x.Pos())
	e.recordSend(fr, st, ch, v, "true", x.Pos())
	e.noteBlocking(fr, "send", x.Pos())
	e.syncPoint(fr, st, "send")
}

func (e *Enc) recv(fr *frame, st *State, x *ssa.UnOp, ch Value) Value {
	e.noteBlocking(fr, "recv", x.Pos())
	// ghost: number of receive operations completed on each channel by this function
	rc := e.ghostGet(st, ghostRecvCount)
	e.ghostSet(st, ghostRecvCount, store(rc, ch.term, "(+ "+sel(rc, ch.term)+" 1)"))
	e.syncPoint(fr, st, "recv")
	et := ch.typ.Underlying().(*types.Chan).Elem()
	v := e.freshValue(st, fr.prefix+x.Name(), et)
	if x.CommaOk {
		ok := e.q.fresh(fr.prefix+x.Name()+"_ok", sortBool)
		e.recvSiteFacts(fr, st, ch, v, ok, x.Pos())
		return Value{typ: x.Type(), tuple: []Value{v, {term: ok, typ: types.Typ[types.Bool]}}}
	}
	// a receive yields a value that was sent, or the zero value if the channel is closed
	ok := e.q.fresh(fr.prefix+x.Name()+"_ok", sortBool)
	e.recvSiteFacts2(fr, st, ch, v, ok, "true", x.Pos())
	return v
}

// recvSiteFacts applies the contract's recvsite clauses to a value that has
// just been received: assumptions about the value (each one listed in the
// evidence) hold when the receive delivered a value (ok); "stable" locals are
// from now on preserved across synchronisation points.
func (e *Enc) recvSiteFacts(fr *frame, st *State, ch, val Value, ok string, pos token.Pos) {
	e.recvSiteFacts2(fr, st, ch, val, ok, ok, pos)
}

// recvSiteFacts2: okInv gates the channel-value invariant (a closed channel
// yields the zero value instead); okClause gates the contract's explicit
// recvsite assumptions (which speak about the value actually obtained).
func (e *Enc) recvSiteFacts2(fr *frame, st *State, ch, val Value, okInv, ok string, pos token.Pos) {
	if len(e.v.db.ChanInvs) > 0 {
		if t := e.chanInvTerm(st, val.typ, val); t != "true" {
			st.assume(implies(okInv, t))
		}
	}
	if okInv != "true" && val.term != "" && len(val.tuple) == 0 {
		// not delivered (channel closed, or another select case chosen): zero value
		st.assume(implies(not(okInv), eq(val.term, e.u.zero(val.typ))))
	}
	con := e.contract
	if con == nil || fr.inlined || fr.fn != e.top {
		return
	}
	fr.curPos = pos
	defer func() { fr.curPos = token.NoPos }()
	for _, rs := range con.RecvSites {
		if rs.Elem != "" {
			tenv := e.frameEnv(fr, st)
			want, ok := tenv.tryType(rs.Elem)
			if !ok {
				e.v.specErrors = append(e.v.specErrors, fmt.Sprintf("%s: recvsite: unknown channel element type %s", con.Header, rs.Elem))
				continue
			}
			if !types.Identical(val.typ, want) {
				continue
			}
		}
		if rs.Clause == nil {
			for _, name := range rs.Stable {
				ds := fr.namedDefs[name]
				found := false
				for _, d := range ds {
					if d.isAddr && d.val.addr == nil {
						e.localRefs = append(e.localRefs, d.val.term)
						found = true
					}
				}
				if !found {
					e.v.specErrors = append(e.v.specErrors, fmt.Sprintf("%s: recvsite stable: %s is not a captured local of this function", con.Header, name))
				}
				e.v.callsiteHits[con.Key+"/stable:"+name]++
				e.v.useTrusted("assume:" + con.Key + ": local " + name + " is not written by another goroutine after a receive has returned")
			}
			continue
		}
		env := e.frameEnv(fr, st)
		e.lenientLocals(fr, st, env)
		env.vars["m"] = val
		env.vars["ch"] = ch
		env.where = "recvsite at " + e.pos(pos)
		e.v.callsiteHits[con.Key+"/"+rs.Clause.Label]++
		st.assume(implies(ok, e.evalClauseAssume(env, rs.Clause)))
		e.v.useTrusted("assume:" + con.Key + ":" + rs.Clause.Label + ": " + rs.Clause.Src)
	}
}

func (e *Enc) selectInstr(fr *frame, st *State, x *ssa.Select) Value {
	n := len(x.States)
	idx := e.q.fresh(fr.prefix+x.Name()+"_idx", sortInt)
	lo := "0"
	if !x.Blocking {
		lo = "(- 1)"
	}
	st.assume(fmt.Sprintf("(and (<= %s %s) (< %s %d))", lo, idx, idx, n))
	// sends are offered with the operands as evaluated before the select
	// blocks: their clauses are checked in the state before other goroutines run
	// the receive alternatives of this select, for alternative() in send-site clauses
	e.selActive, e.selNonBlocking, e.selAlts = true, !x.Blocking, nil
	for _, s := range x.States {
		if s.Dir != types.SendOnly {
			e.selAlts = append(e.selAlts, fr.val(st, s.Chan).term)
		}
	}
	for _, s := range x.States {
		if s.Dir == types.SendOnly {
			ch := fr.val(st, s.Chan)
			v := fr.val(st, s.Send)
			// an attempt is recorded whether or not the message was enqueued
			e.recordSend(fr, st, ch, v, "true", s.Pos)
		}
	}
	e.selActive, e.selNonBlocking, e.selAlts = false, false, nil
	if x.Blocking {
		e.noteBlocking(fr, "select", x.Pos())
		e.syncPoint(fr, st, "select")
	}
	tuple := []Value{{term: idx, typ: types.Typ[types.Int]}, {term: e.q.fresh("recvok", sortBool), typ: types.Typ[types.Bool]}}
	if e.contract != nil {
		lastSel := "(- 1)"
		for i := len(x.States) - 1; i >= 0; i-- {
			if x.States[i].Dir != types.SendOnly {
				lastSel = ite("(= "+idx+" "+fmt.Sprint(i)+")", fr.val(st, x.States[i].Chan).term, lastSel)
			}
		}
		e.ghostSet(st, ghostLastSel, lastSel)
	}
	for i, s := range x.States {
		ch := fr.val(st, s.Chan)
		if s.Dir == types.SendOnly {
			_ = i
		} else {
			et := ch.typ.Underlying().(*types.Chan).Elem()
			rv := e.freshValue(st, fmt.Sprintf("%s%s_r%d", fr.prefix, x.Name(), i), et)
			tuple = append(tuple, rv)
			// the received value is meaningful when this case was chosen and the channel delivered
			e.recvSiteFacts(fr, st, ch, rv, and("(= "+idx+" "+fmt.Sprint(i)+")", tuple[1].term), s.Pos)
		}
	}
	return Value{typ: x.Type(), tuple: tuple}
}

func (e *Enc) noteBlocking(fr *frame, what string, pos token.Pos) {
	e.v.blocking = append(e.v.blocking, fmt.Sprintf("%s:%s@%s", funcDisplayName(e.top), what, e.pos(pos)))
	if e.contract != nil && e.contract.Nonblock {
		// reported as a structural obligation failure
		st := e.entry.clone()
		e.oblige(st, "nonblocking", what, "false", pos)
	}
}

func (e *Enc) panicInstr(fr *frame, st *State, x *ssa.Panic) {
	if e.contract != nil && e.contract.MayPanic {
		return
	}
	e.oblige(st, "nopanic", "explicit-panic", "false", x.Pos())
}

func (e *Enc) goInstr(fr *frame, st *State, x *ssa.Go) {
	// evaluate operands (for closures) but no sequential effect
	e.q.note("concurrency: goroutine started at %s is verified separately (if under contract)", e.pos(x.Pos()))
}

// ---------------------------------------------------------------------------
// defers

type deferRec struct {
	ins  *ssa.Defer
	args []Value
	fnv  Value
}

var deferRecs = map[*frame][]*deferRec{}

func (e *Enc) deferInstr(fr *frame, st *State, x *ssa.Defer) {
	rec := &deferRec{ins: x}
	c := x.Common()
	if !c.IsInvoke() {
		if _, isB := c.Value.(*ssa.Builtin); !isB {
			rec.fnv = fr.val(st, c.Value)
		}
	} else {
		rec.fnv = fr.val(st, c.Value)
	}
	for _, a := range c.Args {
		rec.args = append(rec.args, fr.val(st, a))
	}
	id := len(deferRecs[fr])
	deferRecs[fr] = append(deferRecs[fr], rec)
	key := deferKey(fr, id)
	st.deferFlags[key] = "true"
}

var deferKeys = map[string]int{}

func deferKey(fr *frame, id int) int {
	k := fmt.Sprintf("%p/%d", fr, id)
	if n, ok := deferKeys[k]; ok {
		return n
	}
	n := len(deferKeys) + 1
	deferKeys[k] = n
	return n
}

func (e *Enc) runDefers(fr *frame, st *State, x *ssa.RunDefers) {
	recs := deferRecs[fr]
	for i := len(recs) - 1; i >= 0; i-- {
		rec := recs[i]
		flag, ok := st.deferFlags[deferKey(fr, i)]
		if !ok || flag == "false" {
			continue
		}
		if flag == "true" {
			e.callWith(fr, st, rec.ins.Common(), rec.fnv, rec.args, nil, rec.ins.Pos())
			continue
		}
		s1 := st.clone()
		s1.assume(flag)
		e.callWith(fr, s1, rec.ins.Common(), rec.fnv, rec.args, nil, rec.ins.Pos())
		s0 := st.clone()
		s0.assume(not(flag))
		m := mergeStates(e.q, []mergeArm{{cond: s1.reach, st: s1}, {cond: s0.reach, st: s0}})
		*st = *m
	}
}

// ---------------------------------------------------------------------------
// loops

// loopWrites computes the heap keys written inside a loop (or all=true).
func (e *Enc) loopWrites(fr *frame, li *loopInfo) (keys map[string]bool, all bool, ghosts bool, closes bool) {
	keys = map[string]bool{}
	for b := range li.blocks {
		for _, ins := range b.Instrs {
			k, a, g := e.v.instrWrites(e, ins, fr)
			if a {
				all = true
			}
			if g {
				ghosts = true
			}
			if e.v.instrCloses(ins) {
				closes = true
			}
			for _, kk := range k {
				keys[kk] = true
			}
		}
	}
	return
}

func (e *Enc) loopHead(fr *frame, b *ssa.BasicBlock, li *loopInfo, st *State, nphi int) {
	spec := e.loopSpecFor(fr, b)
	// 1. invariants on entry
	entryEnv := e.loopEnv(fr, b, st, spec)
	if spec != nil {
		for _, inv := range spec.Invariants {
			e.obligeClause(entryEnv, st, "invariant-entry", inv, b.Instrs[0].Pos())
		}
	}
	preLoop := st.clone()
	// 2. havoc
	keys, all, ghosts, closes := e.loopWrites(fr, li)
	if all {
		st.havocAll(e.localRefs, e.ownedKeyFilterFor(fr))
	} else {
		var ks []string
		for k := range keys {
			ks = append(ks, k)
		}
		sort.Strings(ks)
		for _, k := range ks {
			pre := st.get(k)
			st.havocKey(k, nil)
			// candidate frame invariant (Houdini): the loop does not change
			// locations that existed before the loop was entered.
			id := fmt.Sprintf("%s|%s#%d|%s", funcDisplayName(e.top), fr.prefix, b.Index, k)
			limit := preLoop.ap
			if e.v.autoFrameOff[id] && e.entry != nil {
				// weaker candidate: locations that existed when the function was
				// entered (objects built by this function before the loop may change)
				id += "|entry"
				limit = e.entry.ap
			}
			if !e.v.autoFrameOff[id] && !e.frameWhole[k] && strings.HasPrefix(e.q.sortOfKey(k), "(Array Int ") {
				r := e.q.freshBound("r")
				e.v.declFun("broot", "(Int) Int")
				guard := []string{"(< " + rootOf(r) + " " + limit + ")"}
				for _, idx := range e.frameAllowed[k] {
					guard = append(guard, "(not (= "+r+" "+idx+"))")
				}
				st.assume(fmt.Sprintf("(forall ((%[1]s Int)) (! (=> %[2]s (= (select %[3]s %[1]s) (select %[4]s %[1]s))) :pattern ((select %[3]s %[1]s))))", r, and(guard...), st.get(k), pre))
				fr.autoFrames[b] = append(fr.autoFrames[b], autoFrame{id: id, key: k, pre: pre, ap: limit, except: e.frameAllowed[k]})
			}
		}
		nap := e.q.fresh("ap", sortInt)
		st.assume("(<= " + st.ap + " " + nap + ")")
		st.ap = nap
	}
	// ghosts: iterators advanced inside the loop, global ghosts if sends/calls
	for _, k := range sortedKeys(st.ghost) {
		if strings.HasPrefix(k, "visited_") || strings.HasPrefix(k, "strpos_") {
			if e.iterInLoop(fr, li, k) {
				st.ghost[k] = e.q.fresh("gh_"+k, e.q.ghostSort(k))
			}
			continue
		}
	}
	for _, k := range []string{ghostSendCount, ghostClosed} {
		if all || (k == ghostSendCount && ghosts) || (k == ghostClosed && closes) {
			e.ghostGet(st, k)
			st.ghost[k] = e.q.fresh("gh_"+k, e.q.ghostSort(k))
		}
	}
	if e.contract != nil {
		for _, cc := range e.contract.CallCounts {
			if loopCalls(li, cc.Callee) {
				k := cc.key()
				e.ghostGet(st, k)
				st.ghost[k] = e.q.fresh("gh_"+k, e.q.ghostSort(k))
			}
		}
	}
	// receive counts, the last select and the last results of tracked callees
	// are unknown at the head of a loop that receives, selects or calls them
	for _, k := range sortedKeys(st.ghost) {
		switch {
		case k == ghostRecvCount && loopReceives(li),
			k == ghostLastSel && loopSelects(li),
			strings.HasPrefix(k, "lastres_") && loopCalls(li, strings.TrimPrefix(k[:strings.LastIndex(k, "@")], "lastres_")):
			st.ghost[k] = e.q.fresh("gh_"+k, e.q.ghostSort(k))
		}
	}
	if loopReceives(li) {
		e.ghostGet(st, ghostRecvCount)
		st.ghost[ghostRecvCount] = e.q.fresh("gh_"+ghostRecvCount, e.q.ghostSort(ghostRecvCount))
	}
	for k := range st.deferFlags {
		_ = k
	}
	// phis
	type autoInv struct {
		phi       *ssa.Phi
		op, bound string
		id        string
	}
	var autos []autoInv
	for _, ins := range b.Instrs[:nphi] {
		phi := ins.(*ssa.Phi)
		entryVal := fr.vals[phi]
		nv := e.freshValue(st, fr.prefix+phi.Name()+"_loop", phi.Type())
		nv.clo = nil
		fr.vals[phi] = nv
		// auto invariants (Houdini candidates): counter with constant start
		// and positive constant steps stays >= start and below the maximum
		// of its type (so that the increment does not wrap).
		if lo, ok := counterPhi(phi, li); ok {
			_, hi, _ := intRange(phi.Type())
			for _, cand := range []struct{ tag, op, bound string }{{"lo", ">=", lo}, {"hi", "<", hi.String()}} {
				id := fmt.Sprintf("%s|%s#%d|counter:%s:%s", funcDisplayName(e.top), fr.prefix, b.Index, phi.Name(), cand.tag)
				if e.v.autoFrameOff[id] {
					continue
				}
				autos = append(autos, autoInv{phi, cand.op, cand.bound, id})
				st.assume("(" + cand.op + " " + nv.term + " " + cand.bound + ")")
			}
		}
		// counter that is incremented by exactly one per iteration of a
		// range-over-map loop equals the number of iterations so far
		if cg := e.loopIterCountGhost(fr, li); cg != "" && unitCounterPhi(phi, li) {
			id := fmt.Sprintf("%s|%s#%d|itercount:%s", funcDisplayName(e.top), fr.prefix, b.Index, phi.Name())
			if !e.v.autoFrameOff[id] {
				if cur, has := st.ghost[cg]; has {
					autos = append(autos, autoInv{phi, "=", "ghost:" + cg, id})
					st.assume("(= " + nv.term + " " + cur + ")")
				}
			}
		}
		_ = entryVal
	}
	if len(autos) > 0 {
		fr.autoInvs[b] = nil
		for _, a := range autos {
			fr.autoInvs[b] = append(fr.autoInvs[b], autoInvRec{a.phi, a.op, a.bound, a.id})
		}
	}
	// 3. assume invariants
	if spec != nil {
		env := e.loopEnv(fr, b, st, spec)
		env.old = entryEnv.old
		for _, inv := range spec.Invariants {
			st.assume(e.evalClauseAssume(env, inv))
		}
	}
	fr.preLoop[b] = preLoop
}

type autoFrame struct {
	id, key, pre, ap string
	except           []string
}

type autoInvRec struct {
	phi       *ssa.Phi
	op, bound string
	id        string
}

// counterPhi recognises i = phi [c, i+k, ...] with constant c and k > 0.
func counterPhi(phi *ssa.Phi, li *loopInfo) (string, bool) {
	if b, ok := phi.Type().Underlying().(*types.Basic); !ok || b.Info()&types.IsInteger == 0 {
		return "", false
	}
	blk := phi.Block()
	lo := ""
	for i, ed := range phi.Edges {
		pred := blk.Preds[i]
		if li.blocks[pred] {
			// back edge value must be phi + positive const (possibly via another phi-free chain)
			if !isIncrementOf(ed, phi, 0) {
				return "", false
			}
		} else {
			c, ok := ed.(*ssa.Const)
			if !ok || c.Value == nil {
				return "", false
			}
			v := c.Int64()
			s := smtInt(v)
			if lo == "" || v < mustInt(lo) {
				lo = s
			}
		}
	}
	return lo, lo != ""
}

func mustInt(s string) int64 {
	var n int64
	if strings.HasPrefix(s, "(- ") {
		fmt.Sscanf(s, "(- %d)", &n)
		return -n
	}
	fmt.Sscanf(s, "%d", &n)
	return n
}

func isIncrementOf(v ssa.Value, phi *ssa.Phi, depth int) bool {
	if depth > 4 {
		return false
	}
	if v == phi {
		return true
	}
	switch x := v.(type) {
	case *ssa.BinOp:
		if x.Op == token.ADD {
			if c, ok := x.Y.(*ssa.Const); ok && c.Value != nil && c.Int64() > 0 {
				return isIncrementOf(x.X, phi, depth+1)
			}
		}
	case *ssa.Phi:
		for _, ed := range x.Edges {
			if !isIncrementOf(ed, phi, depth+1) {
				return false
			}
		}
		return true
	}
	return false
}

// loopInsertsInto: may the loop around the Next instruction insert into a map
// of the given type (directly or through a call)?
func (e *Enc) loopInsertsInto(fr *frame, nx *ssa.Next, mt types.Type) bool {
	var li *loopInfo
	for _, l := range fr.loops {
		if l.blocks[nx.Block()] && (li == nil || len(l.blocks) < len(li.blocks)) {
			li = l
		}
	}
	if li == nil {
		return true
	}
	_, valKey, _ := e.mapKeys(mt)
	for b := range li.blocks {
		for _, ins := range b.Instrs {
			switch y := ins.(type) {
			case *ssa.MapUpdate:
				if types.Identical(y.Map.Type().Underlying(), mt.Underlying()) {
					return true
				}
			case *ssa.Call, *ssa.Defer, *ssa.Go, *ssa.Send, *ssa.Select:
				if c, ok := ins.(*ssa.Call); ok {
					if b, isB := c.Common().Value.(*ssa.Builtin); isB && !c.Common().IsInvoke() {
						if b.Name() != "clear" {
							continue // delete/append/len/...: no insertion
						}
					}
				}
				keys, all, _ := e.v.instrWrites(e, ins, fr)
				if all {
					return true
				}
				for _, k := range keys {
					if k == valKey {
						return true
					}
				}
			case *ssa.UnOp:
				if y.Op == token.ARROW {
					return true
				}
			}
		}
	}
	return false
}

// loopDeletesFrom: does the loop around the Next instruction delete from a map
// of the given type directly? (calls are covered by loopInsertsInto's write-set test)
func (e *Enc) loopDeletesFrom(fr *frame, nx *ssa.Next, mt types.Type) bool {
	var li *loopInfo
	for _, l := range fr.loops {
		if l.blocks[nx.Block()] && (li == nil || len(l.blocks) < len(li.blocks)) {
			li = l
		}
	}
	if li == nil {
		return true
	}
	domKey, _, _ := e.mapKeys(mt)
	for b := range li.blocks {
		for _, ins := range b.Instrs {
			if c, ok := ins.(*ssa.Call); ok {
				if bi, isB := c.Common().Value.(*ssa.Builtin); isB && !c.Common().IsInvoke() {
					if bi.Name() == "delete" && types.Identical(c.Common().Args[0].Type().Underlying(), mt.Underlying()) {
						return true
					}
					continue
				}
			}
			switch ins.(type) {
			case *ssa.Call, *ssa.Defer:
				keys, all, _ := e.v.instrWrites(e, ins, fr)
				if all {
					return true
				}
				for _, k := range keys {
					if k == domKey {
						return true
					}
				}
			}
		}
	}
	return false
}

func (e *Enc) iterInLoop(fr *frame, li *loopInfo, ghostKey string) bool {
	for b := range li.blocks {
		for _, ins := range b.Instrs {
			if nx, ok := ins.(*ssa.Next); ok {
				if v, ok := fr.vals[nx.Iter]; ok && v.iter != nil && (v.iter.ghost == ghostKey || v.iter.posGhost == ghostKey || v.iter.cntGhost == ghostKey) {
					return true
				}
			}
		}
	}
	return false
}

func (e *Enc) loopBack(fr *frame, head *ssa.BasicBlock, li *loopInfo, from *ssa.BasicBlock, st *State) {
	spec := e.loopSpecFor(fr, head)
	idx := predIndex(head, from)
	// phi values along this edge
	saved := map[*ssa.Phi]Value{}
	for _, ins := range head.Instrs {
		phi, ok := ins.(*ssa.Phi)
		if !ok {
			break
		}
		saved[phi] = fr.vals[phi]
	}
	newVals := map[*ssa.Phi]Value{}
	for phi := range saved {
		newVals[phi] = fr.val(st, phi.Edges[idx])
	}
	for phi, v := range newVals {
		fr.vals[phi] = v
	}
	for _, a := range fr.autoInvs[head] {
		bound := a.bound
		if strings.HasPrefix(bound, "ghost:") {
			g, has := st.ghost[bound[6:]]
			if !has {
				continue
			}
			bound = g
		}
		cond := "(" + a.op + " " + fr.vals[a.phi].term + " " + bound + ")"
		o := &Obligation{Name: "autoinv:" + a.id + fmt.Sprintf("@%d", from.Index), Kind: "autoframe", Func: funcDisplayName(e.top), reach: st.reach, cond: cond, Expect: a.id}
		o.NDecls = len(e.q.decls)
		e.autoObls = append(e.autoObls, o)
	}
	for _, af := range fr.autoFrames[head] {
		w := e.q.fresh("w", sortInt)
		guard := []string{"(< " + rootOf(w) + " " + af.ap + ")"}
		for _, idx := range af.except {
			guard = append(guard, "(not (= "+w+" "+idx+"))")
		}
		cond := fmt.Sprintf("(=> %s (= (select %s %s) (select %s %s)))", and(guard...), st.get(af.key), w, af.pre, w)
		o := &Obligation{Name: "autoframe:" + af.id + fmt.Sprintf("@%d", from.Index), Kind: "autoframe", Func: funcDisplayName(e.top), reach: st.reach, cond: cond, Expect: af.id}
		o.NDecls = len(e.q.decls)
		e.autoObls = append(e.autoObls, o)
	}
	if spec != nil {
		fr.envBlock = head
		env := e.loopEnv(fr, head, st, spec)
		fr.envBlock = nil
		for _, inv := range spec.Invariants {
			e.obligeClause(env, st, "invariant-preserved", inv, head.Instrs[0].Pos())
		}
	}
	for phi, v := range saved {
		fr.vals[phi] = v
	}
}

func (e *Enc) ownedKeyFilterFor(fr *frame) func(string) bool { return e.ownedKeyFilter() }

// loopCalls: does the loop contain a call of a function with that name?
func loopReceives(li *loopInfo) bool {
	for b := range li.blocks {
		for _, ins := range b.Instrs {
			if u, ok := ins.(*ssa.UnOp); ok && u.Op == token.ARROW {
				return true
			}
		}
	}
	return false
}

func loopSelects(li *loopInfo) bool {
	for b := range li.blocks {
		for _, ins := range b.Instrs {
			if _, ok := ins.(*ssa.Select); ok {
				return true
			}
		}
	}
	return false
}

func loopCalls(li *loopInfo, callee string) bool {
	for b := range li.blocks {
		for _, ins := range b.Instrs {
			var c *ssa.CallCommon
			switch x := ins.(type) {
			case *ssa.Call:
				c = x.Common()
			case *ssa.Defer:
				c = x.Common()
			}
			if c == nil {
				continue
			}
			if c.IsInvoke() {
				if c.Method.Name() == callee {
					return true
				}
				continue
			}
			if fn := c.StaticCallee(); fn != nil && fn.Name() == callee {
				return true
			}
			if _, ok := c.Value.(*ssa.Function); !ok {
				return true // dynamic call: be conservative
			}
		}
	}
	return false
}

func sortedKeys(m map[string]string) []string {
	out := make([]string, 0, len(m))
	for k := range m {
		out = append(out, k)
	}
	sort.Strings(out)
	return out
}

// mapInvTerm: the declared invariant of the values of maps of type t, for
// value v ("true" if there is none).
func (e *Enc) mapInvTerm(st *State, t types.Type, v Value) string {
	if len(e.v.db.MapInvs) == 0 {
		return "true"
	}
	for _, mi := range e.v.db.MapInvs {
		pkg := e.v.pkgByPath[mi.Pkg]
		env := &SpecEnv{e: e, pkg: pkg, vars: map[string]Value{"v": v}, cur: st, where: "mapinv " + mi.TypeText}
		mt, ok := env.tryType(mi.TypeText)
		if !ok {
			e.v.specErrors = append(e.v.specErrors, fmt.Sprintf("%s:%d: mapinv: unknown type %s", mi.File, mi.Line, mi.TypeText))
			continue
		}
		if !types.Identical(mt, t) && !types.Identical(mt.Underlying(), t.Underlying()) {
			continue
		}
		e.v.useTrusted("mapinv:" + mi.TypeText + " (checked at every map update under contract; see structural#mapinv-writes)")
		return e.evalClause(env, mi.Clause)
	}
	return "true"
}

// loopIterCountGhost: if the loop is a range over a map (its header holds the
// Next instruction of a map iterator), the ghost that counts its iterations.
func (e *Enc) loopIterCountGhost(fr *frame, li *loopInfo) string {
	for _, ins := range li.head.Instrs {
		if nx, ok := ins.(*ssa.Next); ok {
			if v, ok := fr.vals[nx.Iter]; ok && v.iter != nil && !v.iter.isString {
				return v.iter.cntGhost
			}
		}
	}
	return ""
}

// unitCounterPhi: i = phi [0 from outside, i+1 from every back edge], where
// the increment is executed exactly once per iteration that continues.
func unitCounterPhi(phi *ssa.Phi, li *loopInfo) bool {
	blk := phi.Block()
	for i, ed := range phi.Edges {
		pred := blk.Preds[i]
		if li.blocks[pred] {
			bo, ok := ed.(*ssa.BinOp)
			if !ok || bo.Op != token.ADD || bo.X != ssa.Value(phi) {
				return false
			}
			c, ok := bo.Y.(*ssa.Const)
			if !ok || c.Value == nil || c.Int64() != 1 {
				return false
			}
		} else {
			c, ok := ed.(*ssa.Const)
			if !ok || c.Value == nil || c.Int64() != 0 {
				return false
			}
		}
	}
	return true
}
