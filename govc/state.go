package main

// Symbolic state: reach condition, lazily resolved heap arrays, allocation
// pointer, ghost variables.

import (
	"fmt"
	"sort"
	"strings"
	"sync"
)

// Query accumulates the declarations and definitional assertions of one
// verification unit (one function under contract).
type Query struct {
	u      *Universe
	decls  []string // in creation order
	n      int
	consts map[string]string // name -> sort
	// heap array sorts by key
	heapSort map[string]string
	notes    []string // unsupported / abstraction notes
	// indices into decls of definitions of quantified assumptions; the
	// "light" variant of a query replaces them by true (fewer assumptions:
	// still sound).
	quantDefs map[int]string
	axioms    map[string]bool
	off0      map[string]bool
	focusMu     sync.Mutex
	focusCached *focusInfo
	quantSyms   map[int]map[string]bool
	shlConst    map[string]int64
}

func newQuery(u *Universe) *Query {
	return &Query{u: u, consts: map[string]string{}, heapSort: map[string]string{}, quantDefs: map[int]string{}}
}

func (q *Query) fresh(prefix, sort string) string {
	q.n++
	name := fmt.Sprintf("%s!%d", sanitize(prefix), q.n)
	name = "|" + name + "|"
	q.consts[name] = sort
	q.decls = append(q.decls, fmt.Sprintf("(declare-const %s %s)", name, sort))
	return name
}

// define introduces a named constant equal to term.
func (q *Query) define(prefix, sort, term string) string {
	if isAtom(term) {
		return term
	}
	name := q.fresh(prefix, sort)
	q.decls = append(q.decls, fmt.Sprintf("(assert (= %s %s))", name, term))
	return name
}

func isAtom(t string) bool {
	if t == "" {
		return true
	}
	if t[0] == '|' {
		return strings.Count(t, "|") == 2 && t[len(t)-1] == '|'
	}
	return !strings.ContainsAny(t, " (")
}

// axiom adds a globally valid fact (an instance of a satisfiable axiom about
// uninterpreted symbols) once.
func (q *Query) axiom(text string) {
	if q.axioms == nil {
		q.axioms = map[string]bool{}
	}
	if q.axioms[text] {
		return
	}
	q.axioms[text] = true
	q.decls = append(q.decls, "(assert "+text+")")
}

func (q *Query) note(format string, args ...any) {
	s := fmt.Sprintf(format, args...)
	for _, n := range q.notes {
		if n == s {
			return
		}
	}
	q.notes = append(q.notes, s)
}

// ---------------------------------------------------------------------------

type epochKind int

const (
	epEntry epochKind = iota
	epHavoc
	epMerge
)

type mergeArm struct {
	cond string
	st   *State
}

type epoch struct {
	id       int
	kind     epochKind
	parent   *State     // havoc: state before havoc
	keep     []string   // havoc: refs (Int terms) whose cells are preserved
	keepOnly func(key string) bool // havoc: if non-nil, keys for which f(key) is true are NOT havocked
	arms     []mergeArm // merge
	cache    map[string]string
}

// State is one symbolic program state. States are treated as immutable
// values: every update clones.
type State struct {
	q     *Query
	reach string
	heap  map[string]string
	ep    *epoch
	ap    string            // allocation pointer (Int term)
	ghost map[string]string // ghost scalars/arrays by name
	// registered defers (flag terms by defer instruction id)
	deferFlags map[int]string
	// probe mode: heap reads return formal names and are recorded (used to
	// build the definition of opaque predicates)
	probe map[string]bool
}

var epochCounter int

func newEpoch(k epochKind) *epoch {
	epochCounter++
	return &epoch{id: epochCounter, kind: k, cache: map[string]string{}}
}

func (q *Query) entryState() *State {
	st := &State{q: q, reach: "true", heap: map[string]string{}, ep: newEpoch(epEntry), ghost: map[string]string{}, deferFlags: map[int]string{}}
	st.ap = q.fresh("ap0", sortInt)
	return st
}

func (s *State) clone() *State {
	n := *s
	n.heap = make(map[string]string, len(s.heap))
	for k, v := range s.heap {
		n.heap[k] = v
	}
	n.ghost = make(map[string]string, len(s.ghost))
	for k, v := range s.ghost {
		n.ghost[k] = v
	}
	n.deferFlags = make(map[int]string, len(s.deferFlags))
	for k, v := range s.deferFlags {
		n.deferFlags[k] = v
	}
	return &n
}

// declareHeap registers the sort of a heap key.
func (q *Query) declareHeap(key, sort string) {
	if old, ok := q.heapSort[key]; ok && old != sort {
		panic("heap key " + key + " with two sorts: " + old + " / " + sort)
	}
	q.heapSort[key] = sort
	globalHeapSort[key] = sort
}

// globalHeapSort remembers the sort of every heap key ever declared in this
// run, so that cached write sets can be used in any query.
var globalHeapSort = map[string]string{}

func (q *Query) keySort(key string) (string, bool) {
	if s, ok := q.heapSort[key]; ok {
		return s, true
	}
	if s, ok := globalHeapSort[key]; ok {
		q.heapSort[key] = s
		q.u.ensureSorts(s)
		return s, true
	}
	return "", false
}

func (s *State) get(key string) string {
	if s.probe != nil {
		if _, ok := s.q.keySort(key); !ok {
			panic("undeclared heap key " + key)
		}
		s.probe[key] = true
		return "H_" + sanitize(key)
	}
	if t, ok := s.heap[key]; ok {
		return t
	}
	return s.ep.resolve(s.q, key)
}

func (s *State) set(key, term string) {
	sortOf, ok := s.q.keySort(key)
	if !ok {
		panic("undeclared heap key " + key)
	}
	s.heap[key] = s.q.define("h_"+key, sortOf, term)
}

func (e *epoch) resolve(q *Query, key string) string {
	if t, ok := e.cache[key]; ok {
		return t
	}
	sortOf, ok := q.keySort(key)
	if !ok {
		panic("undeclared heap key " + key)
	}
	var t string
	switch e.kind {
	case epEntry:
		t = q.fresh("H0_"+key, sortOf)
	case epHavoc:
		if (e.keepOnly != nil && e.keepOnly(key)) || immutableHeapKeys[key] {
			t = e.parent.get(key)
			break
		}
		t = q.fresh(fmt.Sprintf("H%d_%s", e.id, key), sortOf)
		if len(e.keep) > 0 && strings.HasPrefix(sortOf, "(Array Int ") {
			old := e.parent.get(key)
			term := t
			for _, r := range e.keep {
				term = store(term, r, sel(old, r))
			}
			t = q.define(fmt.Sprintf("H%dk_%s", e.id, key), sortOf, term)
		}
	case epMerge:
		terms := make([]string, len(e.arms))
		same := true
		for i, a := range e.arms {
			terms[i] = a.st.get(key)
			if terms[i] != terms[0] {
				same = false
			}
		}
		if same {
			t = terms[0]
		} else {
			term := terms[len(terms)-1]
			for i := len(terms) - 2; i >= 0; i-- {
				term = ite(e.arms[i].cond, terms[i], term)
			}
			t = q.define(fmt.Sprintf("HM%d_%s", e.id, key), sortOf, term)
		}
	}
	e.cache[key] = t
	return t
}

// assume folds a condition into reach.
func (s *State) assume(cond string) {
	if cond == "true" || cond == "" {
		return
	}
	if strings.Contains(cond, "(forall ") || strings.Contains(cond, "(exists ") {
		var plain []string
		for _, c := range topConjuncts(cond) {
			if strings.Contains(c, "(forall ") || strings.Contains(c, "(exists ") {
				name := s.q.fresh("qa", sortBool)
				s.q.quantDefs[len(s.q.decls)] = name
				s.q.decls = append(s.q.decls, fmt.Sprintf("(assert (= %s %s))", name, c))
				plain = append(plain, name)
			} else {
				plain = append(plain, c)
			}
		}
		cond = and(plain...)
	}
	s.reach = s.q.define("r", sortBool, and(s.reach, cond))
}

// havocAll forgets every heap array except cells at the given refs.
func (s *State) havocAll(keepRefs []string, keepKey func(string) bool) {
	parent := s.clone()
	e := newEpoch(epHavoc)
	e.parent = parent
	e.keep = keepRefs
	e.keepOnly = keepKey
	s.ep = e
	s.heap = map[string]string{}
	nap := s.q.fresh("ap", sortInt)
	s.assumeRaw("(<= " + s.ap + " " + nap + ")")
	s.ap = nap
}

func (s *State) assumeRaw(c string) { s.assume(c) }

// havocKey replaces one heap array by a fresh one, preserving listed refs.
func (s *State) havocKey(key string, keepRefs []string) {
	sortOf, _ := s.q.keySort(key)
	old := s.get(key)
	t := s.q.fresh("hv_"+key, sortOf)
	if len(keepRefs) > 0 && strings.HasPrefix(sortOf, "(Array Int ") {
		term := t
		for _, r := range keepRefs {
			term = store(term, r, sel(old, r))
		}
		t = s.q.define("hvk_"+key, sortOf, term)
	}
	s.heap[key] = t
}

// mergeStates joins states arriving over several edges. conds are the edge
// conditions (already including the source reach).
func mergeStates(q *Query, arms []mergeArm) *State {
	if len(arms) == 1 {
		st := arms[0].st.clone()
		st.reach = q.define("r", sortBool, arms[0].cond)
		return st
	}
	st := &State{q: q, heap: map[string]string{}, ghost: map[string]string{}, deferFlags: map[int]string{}}
	conds := make([]string, len(arms))
	for i, a := range arms {
		conds[i] = a.cond
	}
	st.reach = q.define("r", sortBool, or(conds...))
	sameEp := true
	for _, a := range arms {
		if a.st.ep != arms[0].st.ep {
			sameEp = false
		}
	}
	if sameEp {
		st.ep = arms[0].st.ep
		// merge explicit keys
		keys := map[string]bool{}
		for _, a := range arms {
			for k := range a.st.heap {
				keys[k] = true
			}
		}
		var ks []string
		for k := range keys {
			ks = append(ks, k)
		}
		sort.Strings(ks)
		for _, k := range ks {
			st.heap[k] = mergeTerms(q, "hm_"+k, q.heapSort[k], arms, func(s *State) string { return s.get(k) })
		}
	} else {
		e := newEpoch(epMerge)
		e.arms = arms
		st.ep = e
	}
	st.ap = mergeTerms(q, "apm", sortInt, arms, func(s *State) string { return s.ap })
	// ghosts
	gk := map[string]bool{}
	for _, a := range arms {
		for k := range a.st.ghost {
			gk[k] = true
		}
	}
	var gks []string
	for k := range gk {
		gks = append(gks, k)
	}
	sort.Strings(gks)
	for _, k := range gks {
		ok := true
		for _, a := range arms {
			if _, has := a.st.ghost[k]; !has {
				ok = false
			}
		}
		iterGhost := strings.HasPrefix(k, "visited_") || strings.HasPrefix(k, "strpos_")
		if !ok && iterGhost {
			continue
		}
		st.ghost[k] = mergeTerms(q, "gm_"+k, q.ghostSort(k), arms, func(s *State) string {
			if t, has := s.ghost[k]; has {
				return t
			}
			return q.ghostEntry(k)
		})
	}
	dk := map[int]bool{}
	for _, a := range arms {
		for k := range a.st.deferFlags {
			dk[k] = true
		}
	}
	for k := range dk {
		st.deferFlags[k] = mergeTerms(q, "dfm", sortBool, arms, func(s *State) string {
			if f, ok := s.deferFlags[k]; ok {
				return f
			}
			return "false"
		})
	}
	return st
}

func mergeTerms(q *Query, prefix, sortOf string, arms []mergeArm, get func(*State) string) string {
	terms := make([]string, len(arms))
	same := true
	for i, a := range arms {
		terms[i] = get(a.st)
		if terms[i] != terms[0] {
			same = false
		}
	}
	if same {
		return terms[0]
	}
	term := terms[len(terms)-1]
	for i := len(terms) - 2; i >= 0; i-- {
		term = ite(arms[i].cond, terms[i], term)
	}
	return q.define(prefix, sortOf, term)
}

var ghostSorts = map[string]string{}

func (q *Query) ghostSort(name string) string {
	if s, ok := ghostSorts[name]; ok {
		return s
	}
	// per-instance ghost names carry their sort after '@'
	if i := strings.LastIndex(name, "@"); i >= 0 {
		return name[i+1:]
	}
	panic("unknown ghost sort for " + name)
}

// topConjuncts splits "(and a b c)" into its arguments (recursively).
func topConjuncts(t string) []string {
	t = strings.TrimSpace(t)
	if !strings.HasPrefix(t, "(and ") || !strings.HasSuffix(t, ")") {
		return []string{t}
	}
	body := t[5 : len(t)-1]
	var out []string
	depth, start := 0, 0
	inStr, inBar := false, false
	flush := func(end int) {
		p := strings.TrimSpace(body[start:end])
		if p != "" {
			out = append(out, topConjuncts(p)...)
		}
	}
	for i := 0; i < len(body); i++ {
		c := body[i]
		switch {
		case inStr:
			if c == '"' {
				inStr = false
			}
		case inBar:
			if c == '|' {
				inBar = false
			}
		case c == '"':
			inStr = true
		case c == '|':
			inBar = true
		case c == '(':
			depth++
		case c == ')':
			depth--
			if depth < 0 {
				return []string{t} // not a single (and ...) term
			}
		case c == ' ' && depth == 0:
			flush(i)
			start = i + 1
		}
	}
	if depth != 0 {
		return []string{t}
	}
	flush(len(body))
	return out
}

func (q *Query) sortOfKey(key string) string {
	s, _ := q.keySort(key)
	return s
}

// ghostEntry: the entry value of a global ghost variable.
func (q *Query) ghostEntry(key string) string {
	name := "|G0_" + sanitize(key) + "|"
	if _, ok := q.consts[name]; !ok {
		q.consts[name] = q.ghostSort(key)
		q.decls = append(q.decls, fmt.Sprintf("(declare-const %s %s)", name, q.ghostSort(key)))
	}
	return name
}

// immutableHeapKeys: fields declared immutable (written only during
// construction) survive every havoc.
var immutableHeapKeys = map[string]bool{}

// Slices whose offset is known to be zero are tracked by term so that
// element indices stay free of arithmetic (important for quantifier
// instantiation).
func (q *Query) markOff0(term string) {
	if q.off0 == nil {
		q.off0 = map[string]bool{}
	}
	q.off0[term] = true
}

func (q *Query) isOff0(term string) bool {
	if q.off0[term] {
		return true
	}
	if term == "nil_slice" || term == "(mk_slice 0 0 0 0)" {
		return true
	}
	if strings.HasPrefix(term, "(mk_slice ") {
		args := sexprArgs(term)
		if len(args) == 5 && args[2] == "0" {
			return true
		}
	}
	return false
}

func (q *Query) offOf(s string) string {
	if q.isOff0(s) {
		return "0"
	}
	return "(s_off " + s + ")"
}

// idxOf: absolute index of element i of slice s in its backing array.
func (q *Query) idxOf(s, i string) string {
	if q.isOff0(s) {
		return i
	}
	return "(+ (s_off " + s + ") " + i + ")"
}

// sexprArgs splits "(f a (g b) c)" into ["f","a","(g b)","c"].
func sexprArgs(t string) []string {
	t = strings.TrimSpace(t)
	if len(t) < 2 || t[0] != '(' || t[len(t)-1] != ')' {
		return nil
	}
	body := t[1 : len(t)-1]
	var out []string
	depth, start := 0, -1
	inStr, inBar := false, false
	for i := 0; i < len(body); i++ {
		c := body[i]
		switch {
		case inStr:
			if c == '"' {
				inStr = false
			}
		case inBar:
			if c == '|' {
				inBar = false
			}
		case c == '"':
			inStr = true
			if start < 0 {
				start = i
			}
		case c == '|':
			inBar = true
			if start < 0 {
				start = i
			}
		case c == '(':
			if start < 0 {
				start = i
			}
			depth++
		case c == ')':
			depth--
		case c == ' ' || c == '\n':
			if depth == 0 && start >= 0 {
				out = append(out, body[start:i])
				start = -1
			}
		default:
			if start < 0 {
				start = i
			}
		}
	}
	if start >= 0 {
		out = append(out, body[start:])
	}
	return out
}
