package main

// govc check: decide one property on /repo's working tree.

import (
	"os/exec"
	"runtime/pprof"
	"crypto/sha256"
	"encoding/json"
	"flag"
	"fmt"
	"os"
	"path/filepath"
	"sort"
	"strconv"
	"strings"
	"time"

	"golang.org/x/tools/go/ssa"
)

type propConfig struct {
	ID         string
	Level      string   // proof / other
	Sweep      []string // function-key substrings for the zero-annotation safety sweep
	SweepSkip  []string
	Structural []string // names of structural checks
	// SafetyOnly: for functions that are under contract for other
	// properties, only the run-time safety obligations are kept here (their
	// functional obligations are discharged by those properties' checks and
	// are assumed in this one)
	SafetyOnly bool
	// Bounded stand-ins: exhaustive/bounded tests of the real code for
	// functions outside the generator's reach; reported as "bounded", never
	// counted as proved
	Bounded []boundedCheck
	Explain string
	Assume     []string
}

type boundedCheck struct {
	Name    string // label in evidence
	Pkg     string // package directory relative to the repository
	Source  string // test source under /verif/bounded
	Target  string // file name injected into the package (overlay)
	Run     string // -run pattern
	Bound   string // the stated bound
	Stands  string // the contract clause it stands in for
}

type knownFinding struct {
	Property string
	Pattern  string // obligation name (exact) or prefix ending with *
	What     string
	Fixed    bool
	Raw      string
}

func loadKnownFindings(path string) []knownFinding {
	data, err := os.ReadFile(path)
	if err != nil {
		return nil
	}
	var out []knownFinding
	for _, ln := range strings.Split(string(data), "\n") {
		ln = strings.TrimSpace(ln)
		if ln == "" || strings.HasPrefix(ln, "#") {
			continue
		}
		kf := knownFinding{Raw: ln}
		switch {
		case strings.HasPrefix(ln, "finding:"):
			ln = strings.TrimSpace(ln[8:])
		case strings.HasPrefix(ln, "fixed:"):
			kf.Fixed = true
			ln = strings.TrimSpace(ln[6:])
		default:
			continue
		}
		for _, f := range strings.Fields(ln) {
			if strings.HasPrefix(f, "property=") {
				kf.Property = f[9:]
			} else if strings.HasPrefix(f, "obligation=") {
				kf.Pattern = f[11:]
			}
		}
		if i := strings.Index(ln, "what="); i >= 0 {
			kf.What = ln[i+5:]
		}
		out = append(out, kf)
	}
	return out
}

func (k knownFinding) matches(prop, obl string) bool {
	if k.Fixed || k.Property != prop {
		return false
	}
	if strings.HasSuffix(k.Pattern, "*") {
		return strings.HasPrefix(obl, k.Pattern[:len(k.Pattern)-1])
	}
	return k.Pattern == obl
}

type evidence struct {
	PropertyID  string         `json:"property_id"`
	Tier        string         `json:"tier"`
	Seed        int            `json:"seed"`
	Level       string         `json:"level"`
	Coverage    map[string]any `json:"coverage"`
	Assumptions []string       `json:"assumptions"`
	WallS       float64        `json:"wall_s"`
	Violations  int            `json:"violations"`
}

func verifDir() string {
	if d := os.Getenv("VERIF_DIR"); d != "" {
		return d
	}
	return "/verif"
}

func cmdCheck(args []string) {
	fs := flag.NewFlagSet("check", flag.ExitOnError)
	repo := fs.String("repo", "/repo", "repository working tree")
	prop := fs.String("property", "", "property id")
	tier := fs.String("tier", "quick", "quick|thorough")
	noEvidence := fs.Bool("no-evidence", false, "do not write the evidence file (used by self-tests on scratch copies)")
	keep := fs.Bool("keep", false, "keep SMT files")
	verbose := fs.Bool("v", false, "verbose")
	rebase := fs.Bool("rebaseline", false, "rewrite /verif/baseline/<id>.json with the contract-level obligations generated now")
	fs.Parse(args)
	if t := os.Getenv("VERIF_TIER"); t != "" && *tier == "" {
		*tier = t
	}
	seed, _ := strconv.Atoi(os.Getenv("VERIF_SEED"))
	t0 := time.Now()
	cfg, ok := propConfigs[*prop]
	if !ok {
		fmt.Fprintf(os.Stderr, "unknown or unclaimed property %q\n", *prop)
		os.Exit(2)
	}
	work, err := os.MkdirTemp("", "govc-"+*prop+"-")
	if err != nil {
		fmt.Fprintln(os.Stderr, err)
		os.Exit(2)
	}
	if !*keep {
		defer os.RemoveAll(work)
	}
	v, err := loadVerifier(*repo)
	if err != nil {
		// the tree does not load: nothing can be decided
		fmt.Fprintln(os.Stderr, "govc: cannot load repository:", err)
		os.Exit(2)
	}
	if len(cfg.Sweep) > 0 {
		v.sweepScope = func(key string) bool {
			return matchAny(key, cfg.Sweep) && !matchAny(key, cfg.SweepSkip) && v.db.Funcs[key] == nil
		}
	}
	var violations []string
	var kfHits []string
	kfs := loadKnownFindings(filepath.Join(verifDir(), "known_findings.txt"))
	replayDir := filepath.Join(verifDir(), "replays", *prop)
	report := func(obl, why, solverOut string, u *Unit, o *Obligation, model map[string]string) {
		for _, k := range kfs {
			if k.matches(*prop, obl) {
				line := fmt.Sprintf("KNOWN-FINDING: property=%s %s %s", *prop, obl, k.What)
				fmt.Println(line)
				kfHits = append(kfHits, obl)
				return
			}
		}
		os.MkdirAll(replayDir, 0o755)
		rp := filepath.Join(replayDir, sanitize(obl)+".json")
		rec := map[string]any{"property": *prop, "obligation": obl, "reason": why, "solver_output": truncate(solverOut, 4000)}
		confirmed := false
		if u != nil && o != nil {
			rec["function"] = o.Func
			rec["position"] = o.Pos
			if model != nil {
				rec["model"] = model
				res := replayOnRealCode(v, u, o, model, *repo)
				rec["replay"] = res
				confirmed = res.Confirmed
			}
		}
		rec["confirmed_on_real_code"] = confirmed
		data, _ := json.MarshalIndent(rec, "", " ")
		os.WriteFile(rp, data, 0o644)
		line := fmt.Sprintf("VIOLATION property=%s replay=%s", *prop, rp)
		if !confirmed {
			line += " no-failing-input-found"
		}
		fmt.Println(line)
		fmt.Printf("  obligation %s: %s\n", obl, why)
		violations = append(violations, obl)
	}
	// contract sanity
	for _, e := range v.db.Errors {
		report("contract-binding[parse]", "contract file error: "+e, "", nil, nil, nil)
	}
	v.checkMirror(*repo, func(msg string) { fmt.Println("WARNING:", msg) })
	// units
	var units []*Unit
	var funcsUnder []string
	seen := map[string]bool{}
	var conKeys []string
	for k := range v.db.Funcs {
		conKeys = append(conKeys, k)
	}
	sort.Strings(conKeys)
	for _, k := range conKeys {
		con := v.db.Funcs[k]
		if !containsStr(con.Props, *prop) || con.Trusted {
			continue
		}
		fn := v.fnByKey[k]
		if fn == nil {
			report("contract-binding["+con.Header+"]", "function under contract not found in the tree: "+con.Header, "", nil, nil, nil)
			continue
		}
		seen[k] = true
		tu := time.Now()
		u := v.verifyFunc(fn, con)
		if *verbose {
			fmt.Printf("  encoded %s in %.1fs (%d obligations)\n", funcDisplayName(fn), time.Since(tu).Seconds(), len(u.Obls))
		}
		units = append(units, u)
		funcsUnder = append(funcsUnder, funcDisplayName(fn))
	}
	if *verbose {
		fmt.Printf("  all units encoded at %.1fs\n", time.Since(t0).Seconds())
	}
	// zero-annotation sweep
	nSweep, nSafetyOnly := 0, 0
	if len(cfg.Sweep) > 0 {
		var keys []string
		for k := range v.fnByKey {
			keys = append(keys, k)
		}
		sort.Strings(keys)
		for _, k := range keys {
			fn := v.fnByKey[k]
			if seen[k] || !v.inRepo2(fn) || fn.Blocks == nil || fn.Synthetic != "" {
				continue
			}
			if !matchAny(k, cfg.Sweep) || matchAny(k, cfg.SweepSkip) {
				continue
			}
			con := v.db.Funcs[k]
			if con != nil && (con.NoSweep || con.Trusted) {
				continue
			}
			if con == nil && fn.Parent() != nil && !closureEscapes(fn) {
				continue // called in place: verified as part of its parent
			}
			seen[k] = true
			v.sweepMode = con == nil
			u := v.verifyFunc(fn, con)
			v.sweepMode = false
			// functions that mutate component state (on <component>) keep all their
			// obligations: panic freedom elsewhere rests on the invariants they preserve
			if con != nil && cfg.SafetyOnly && *tier != "thorough" {
				var keep []*Obligation
				for _, o := range u.Obls {
					switch o.Kind {
					case "nopanic", "nohang", "pre", "fieldinv", "mapinv", "chaninv", "typestate", "captures", "contract-binding":
						keep = append(keep, o)
					case "ensures":
						// state-mutating actions (on <component>): panic freedom elsewhere
						// rests on the invariants they re-establish (clauses labelled inv*)
						if con.On != "" && strings.Contains(o.Name, "#ensures[inv") {
							keep = append(keep, o)
						}
					}
				}
				u.Obls = keep
				u.Covers = nil
				nSafetyOnly++
			} else {
				nSweep++
			}
			units = append(units, u)
			funcsUnder = append(funcsUnder, funcDisplayName(fn))
		}
	}
	for _, e := range v.specErrors {
		report("contract-binding[spec]", "contract does not type-check against the code: "+e, "", nil, nil, nil)
	}
	quickT, longT := 10, 60
	if *tier == "thorough" {
		quickT, longT = 20, 120
	}
	var unitErrs []string
	for _, u := range units {
		if u.Err != "" {
			unitErrs = append(unitErrs, funcDisplayName(u.Fn)+": "+u.Err)
			report("encoding["+funcDisplayName(u.Fn)+"]", "function could not be encoded: "+u.Err, "", nil, nil, nil)
		}
	}
	results := runUnits(v, units, work, quickT, longT, *tier == "thorough", true)
	// lemmas
	lemmaRes := v.runLemmas(*prop, work, quickT, longT)
	results = append(results, lemmaRes...)
	// structural checks
	structRes := v.runStructural(cfg)
	nObl, nDis := 0, 0
	backends := map[string]int{}
	solverS, maxS := 0.0, 0.0
	var samples []any
	var unclaimed []string
	vacuityFail := 0
	for _, r := range results {
		if r.O.Kind == "cover" {
			if r.R.Verdict == "unsat" {
				vacuityFail++
				report(r.O.Name, "vacuity: the precondition (or every path to return) is unsatisfiable, the proof would be empty", r.R.Output, nil, nil, nil)
			}
			continue
		}
		nObl++
		solverS += r.R.Seconds
		if r.R.Seconds > maxS {
			maxS = r.R.Seconds
		}
		if r.R.Verdict == "unsat" && os.Getenv("GOVC_SLOW") != "" && r.R.Seconds > 8 {
			fmt.Printf("SLOW %.1fs %s %s\n", r.R.Seconds, r.R.Solver, r.O.Name)
		}
		if r.R.Verdict == "unsat" {
			nDis++
			backends[r.R.Solver]++
			if len(samples) < 6 {
				samples = append(samples, map[string]string{"obligation": r.O.Name, "kind": r.O.Kind, "at": r.O.Pos, "backend": r.R.Solver, "smt_sha256": fileHash(r.SMT)})
			}
			continue
		}
		if *verbose {
			fmt.Printf("  failed %s: %s (%s)\n", r.O.Name, r.R.Verdict, strings.Join(r.R.Tried, " "))
		}
		switch r.R.Verdict {
		case "sat":
			model := parseModel(r.R.Output)
			if r.U != nil && r.U.Fn != nil {
				for _, mt := range v.replayTerms(r.U, r.O) {
					for k, val := range model {
						if normalizeSpace(strings.ReplaceAll(k, "|", "")) == normalizeSpace(strings.ReplaceAll(mt.Term, "|", "")) {
							model[mt.Name] = val
						}
					}
				}
			}
			report(r.O.Name, "obligation refuted by "+r.R.Solver+" (counterexample found)", r.R.Output, r.U, r.O, model)
		default:
			unclaimed = append(unclaimed, r.O.Name)
			report(r.O.Name, "obligation no longer discharged ("+strings.Join(r.R.Tried, " ")+")", r.R.Output, r.U, r.O, nil)
		}
	}
	for _, s := range structRes {
		nObl++
		if s.OK {
			nDis++
			backends["structural"]++
			if len(samples) < 8 {
				samples = append(samples, map[string]string{"obligation": s.Name, "kind": "structural", "backend": "structural"})
			}
		} else {
			report(s.Name, "structural obligation failed: "+s.Detail, s.Detail, nil, nil, nil)
		}
	}
	// bounded stand-ins
	var boundedEv []any
	for _, bc := range cfg.Bounded {
		ok, out := runBounded(*repo, bc)
		boundedEv = append(boundedEv, map[string]any{"name": bc.Name, "stands_in_for": bc.Stands, "bound": bc.Bound, "passed": ok, "how": "go test -overlay (injected into " + bc.Pkg + ", nothing written to the repository) -run " + bc.Run})
		if !ok {
			report("bounded["+bc.Name+"]", "bounded check of the real code failed (bound: "+bc.Bound+")", out, nil, nil, nil)
		}
	}
	// vacuity: obligations must exist
	if nObl == 0 {
		report("vacuity[no-obligations]", "no obligation was generated for this property", "", nil, nil, nil)
	}
	if *rebase {
		var names []string
		for _, r := range results {
			switch r.O.Kind {
			case "ensures", "invariant-entry", "invariant-preserved", "callsite", "sendsite", "lemma", "frame", "fieldinv":
				if !strings.Contains(r.O.Name, "~") {
					names = append(names, r.O.Name)
				}
			}
		}
		for _, sr := range structRes {
			names = append(names, sr.Name)
		}
		sort.Strings(names)
		os.MkdirAll(filepath.Join(verifDir(), "baseline"), 0o755)
		data, _ := json.MarshalIndent(names, "", " ")
		os.WriteFile(filepath.Join(verifDir(), "baseline", *prop+".json"), data, 0o644)
	}
	v.checkBaseline(*prop, results, structRes, func(name string) {
		report("contract-binding["+name+"]", "obligation "+name+" of the committed baseline was not generated any more (contract no longer bound to code)", "", nil, nil, nil)
	})
	var trusted []string
	for k := range v.trustedUsed {
		trusted = append(trusted, k)
	}
	sort.Strings(trusted)
	var notes []string
	noteSeen := map[string]bool{}
	for _, u := range units {
		for _, n := range u.Notes {
			if !noteSeen[n] {
				noteSeen[n] = true
				notes = append(notes, n)
			}
		}
	}
	sort.Strings(notes)
	var unc []string
	for k := range v.uncontracted {
		unc = append(unc, k)
	}
	sort.Strings(unc)
	assumptions := append([]string{}, baseAssumptions...)
	assumptions = append(assumptions, cfg.Assume...)
	for _, n := range notes {
		assumptions = append(assumptions, n)
	}
	if len(unc) > 0 {
		assumptions = append(assumptions, "in-repo callees without contract are havocked (all heap forgotten) and assumed not to panic under their own sweep: "+strings.Join(shorten(unc), ", "))
	}
	sort.Strings(funcsUnder)
	level := cfg.Level
	if level == "" {
		level = "proof"
	}
	cov := map[string]any{
		"obligations":              nObl,
		"discharged":               nDis,
		"checker_cmd":              fmt.Sprintf("bin/govc check -property %s -tier %s", *prop, *tier),
		"trusted_base":             append([]string{"govc VC generator (this repository, /verif/govc)", "go/ssa (x/tools v0.50.0) as the semantics of the Go source", "z3 5.1.0 (z3-new), z3 4.8.12, cvc5 1.0"}, trusted...),
		"functions_under_contract": funcsUnder,
		"backends":                 backends,
		"solver_seconds_total":     round2(solverS),
		"solver_seconds_max":       round2(maxS),
		"unclaimed":                unclaimed,
		"bounded":                  boundedEv,
		"vacuity":                  map[string]any{"covers_checked": countCovers(results), "covers_failed": vacuityFail},
		"samples":                  samples,
		"known_findings_hit":       kfHits,
		"explanation":              cfg.Explain,
		"lemmas":                   len(lemmaRes),
		"structural":               len(structRes),
		"regexps_translated":       v.regexUsed,
	}
	if len(cfg.Sweep) > 0 {
		cov["sweep"] = map[string]any{"functions_without_contract": nSweep, "contract_functions_safety_obligations_only": nSafetyOnly, "packages": cfg.Sweep, "skipped": cfg.SweepSkip}
	}
	if *tier == "thorough" && !*noEvidence && *repo == "/repo" {
		cov["selftest_seeded_defects"] = runSeededSelfTest(*prop)
	}
	ev := evidence{PropertyID: *prop, Tier: *tier, Seed: seed, Level: level, Coverage: cov, Assumptions: assumptions, WallS: round2(time.Since(t0).Seconds()), Violations: len(violations)}
	if !*noEvidence {
		os.MkdirAll(filepath.Join(verifDir(), "evidence"), 0o755)
		data, _ := json.MarshalIndent(ev, "", " ")
		os.WriteFile(filepath.Join(verifDir(), "evidence", *prop+".json"), data, 0o644)
	}
	fmt.Printf("property %s: %d obligations, %d discharged, %d violations, %d known findings, %.1fs\n", *prop, nObl, nDis, len(violations), len(kfHits), time.Since(t0).Seconds())
	if len(violations) > 0 {
		pprof.StopCPUProfile()
		os.Exit(1)
	}
}

var baseAssumptions = []string{
	"partial correctness only: termination is not proved",
	"sequential semantics per function: goroutine interleavings are not explored; a blocking channel operation forgets all heap state not owned by the running component",
	"sync.Mutex Lock/Unlock are no-ops: data protected by a lock is assumed stable while the function runs (atomicity of critical sections)",
	"Go strings are modelled as SMT-LIB strings (code points up to 0x2FFFF, len = number of code points); integer arithmetic is exact two's complement; floats are opaque",
	"external (standard library / third-party) calls without a model are assumed not to panic and, for the packages listed as pure in trusted_base, not to touch modelled state",
}

func truncate(s string, n int) string {
	if len(s) > n {
		return s[:n] + "..."
	}
	return s
}

func round2(f float64) float64 { return float64(int(f*100+0.5)) / 100 }

func containsStr(xs []string, s string) bool {
	for _, x := range xs {
		if x == s {
			return true
		}
	}
	return false
}

func matchAny(s string, pats []string) bool {
	for _, p := range pats {
		if strings.Contains(s, p) {
			return true
		}
	}
	return false
}

func shorten(xs []string) []string {
	out := make([]string, len(xs))
	for i, x := range xs {
		out[i] = strings.ReplaceAll(x, repoMod+"/", "")
	}
	return out
}

func countCovers(rs []oblResult) int {
	n := 0
	for _, r := range rs {
		if r.O.Kind == "cover" {
			n++
		}
	}
	return n
}

func fileHash(path string) string {
	data, err := os.ReadFile(path)
	if err != nil {
		return ""
	}
	return fmt.Sprintf("%x", sha256.Sum256(data))[:16]
}

// parseModel reads the (get-value ...) answer following "sat".
func parseModel(out string) map[string]string {
	m := map[string]string{}
	i := strings.Index(out, "\n")
	if i < 0 {
		return m
	}
	body := strings.TrimSpace(out[i+1:])
	// format: ((name value) (name value) ...)
	toks := sexprSplit(body)
	for _, t := range toks {
		parts := sexprSplit(t)
		if len(parts) == 2 {
			m[strings.Trim(parts[0], "|")] = parts[1]
		}
	}
	return m
}

// sexprSplit splits the top-level elements of "(a b (c d))" -> a, b, (c d).
func sexprSplit(s string) []string {
	s = strings.TrimSpace(s)
	if !strings.HasPrefix(s, "(") || !strings.HasSuffix(s, ")") {
		return nil
	}
	s = s[1 : len(s)-1]
	var out []string
	depth, start := 0, -1
	inStr, inBar := false, false
	for i := 0; i < len(s); i++ {
		c := s[i]
		switch {
		case inStr:
			if c == '"' {
				if i+1 < len(s) && s[i+1] == '"' {
					i++
				} else {
					inStr = false
				}
			}
		case inBar:
			if c == '|' {
				inBar = false
			}
		case c == '"':
			inStr = true
			if start < 0 {
				start = i
			}
		case c == '|':
			inBar = true
			if start < 0 {
				start = i
			}
		case c == '(':
			if start < 0 {
				start = i
			}
			depth++
		case c == ')':
			depth--
		case c == ' ' || c == '\n' || c == '\t':
			if depth == 0 && start >= 0 {
				out = append(out, s[start:i])
				start = -1
			}
		default:
			if start < 0 {
				start = i
			}
		}
	}
	if start >= 0 {
		out = append(out, s[start:])
	}
	return out
}

// checkMirror compares the contract files in the repository with the mirror
// kept under /verif/contracts.
func (v *Verifier) checkMirror(repo string, warn func(string)) {
	mirror := filepath.Join(verifDir(), "contracts")
	filepath.Walk(mirror, func(path string, info os.FileInfo, err error) error {
		if err != nil || info.IsDir() || filepath.Base(path) != "verif_contracts.go" {
			return nil
		}
		rel, _ := filepath.Rel(mirror, path)
		a, _ := os.ReadFile(path)
		b, err2 := os.ReadFile(filepath.Join(repo, rel))
		if err2 != nil {
			warn("contract file " + rel + " is missing in the repository; the check uses whatever contracts it finds there")
		} else if string(a) != string(b) {
			warn("contract file " + rel + " differs from the mirror in /verif/contracts")
		}
		return nil
	})
}

type structResult struct {
	Name   string
	OK     bool
	Detail string
}

// checkBaseline: contract-level obligations recorded in the committed
// baseline must still be generated.
func (v *Verifier) checkBaseline(prop string, results []oblResult, structRes []structResult, missing func(string)) {
	data, err := os.ReadFile(filepath.Join(verifDir(), "baseline", prop+".json"))
	if err != nil {
		return
	}
	var names []string
	if json.Unmarshal(data, &names) != nil {
		return
	}
	have := map[string]bool{}
	for _, r := range results {
		have[r.O.Name] = true
	}
	for _, s := range structRes {
		have[s.Name] = true
	}
	for _, n := range names {
		if !have[n] {
			missing(n)
		}
	}
}

var _ = ssa.NaiveForm

// runBounded injects a test file into a package of the repository with
// go test -overlay and runs it.
func runBounded(repo string, bc boundedCheck) (bool, string) {
	src := filepath.Join(verifDir(), "bounded", bc.Source)
	if _, err := os.Stat(src); err != nil {
		return false, "bounded test source missing: " + src
	}
	dir, err := os.MkdirTemp("", "govc-bounded-")
	if err != nil {
		return false, err.Error()
	}
	defer os.RemoveAll(dir)
	ov := map[string]any{"Replace": map[string]string{filepath.Join(repo, bc.Pkg, bc.Target): src}}
	data, _ := json.Marshal(ov)
	ovPath := filepath.Join(dir, "ov.json")
	os.WriteFile(ovPath, data, 0o644)
	cmd := exec.Command(goBin(), "test", "-overlay", ovPath, "-vet=off", "-count=1", "-timeout", "300s", "-run", bc.Run, "./"+bc.Pkg)
	cmd.Dir = repo
	out, err := cmd.CombinedOutput()
	return err == nil, truncate(string(out), 4000)
}

// runSeededSelfTest (thorough tier): every seeded defect kept under
// /verif/seeded for this property is applied to a scratch copy of the
// repository and the quick check is run on it; a seed that is not reported is
// a weakness of the contracts and is listed in the evidence (it is not a
// property violation of the unchanged tree, so it does not change the exit code).
func runSeededSelfTest(prop string) map[string]any {
	res := map[string]any{}
	if os.Getenv("VERIF_SKIP_SEEDED") != "" {
		// development only: the registered thorough commands do not set this
		res["skipped"] = "VERIF_SKIP_SEEDED set"
		return res
	}
	dirs, _ := filepath.Glob(filepath.Join(verifDir(), "seeded", "*"))
	sort.Strings(dirs)
	var caught, missed []string
	for _, d := range dirs {
		data, err := os.ReadFile(filepath.Join(d, "meta.json"))
		if err != nil {
			continue
		}
		var meta struct {
			Property string `json:"property"`
		}
		if json.Unmarshal(data, &meta) != nil || meta.Property != prop {
			continue
		}
		base := os.Getenv("VERIF_SCRATCH")
		if base == "" {
			base = os.TempDir()
		}
		scratch, err := os.MkdirTemp(base, "govc-seed-")
		if err != nil {
			continue
		}
		ok := func() bool {
			defer os.RemoveAll(scratch)
			if out, err := exec.Command("cp", "-r", "/repo/.", scratch).CombinedOutput(); err != nil {
				fmt.Println("selftest: copy failed:", string(out))
				return false
			}
			os.RemoveAll(filepath.Join(scratch, ".git"))
			exec.Command("git", "-C", scratch, "init", "-q").Run()
			if out, err := exec.Command("git", "-C", scratch, "apply", "--whitespace=nowarn", filepath.Join(d, "patch.diff")).CombinedOutput(); err != nil {
				fmt.Println("selftest: patch does not apply:", filepath.Base(d), string(out))
				return false
			}
			out, _ := exec.Command(os.Args[0], "check", "-property", prop, "-tier", "quick", "-no-evidence", "-repo", scratch).CombinedOutput()
			return strings.Contains(string(out), "\nVIOLATION ") || strings.HasPrefix(string(out), "VIOLATION ")
		}()
		if ok {
			caught = append(caught, filepath.Base(d))
		} else {
			missed = append(missed, filepath.Base(d))
			fmt.Println("SELFTEST-MISS: seeded defect", filepath.Base(d), "is not reported by the check of", prop)
		}
	}
	res["caught"] = caught
	res["missed"] = missed
	return res
}
