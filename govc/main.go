package main

import (
	"context"
	"runtime/pprof"
	"flag"
	"fmt"
	"os"
	"sort"
	"strings"
	"sync"
	"time"
)

func main() {
	// the repository needs go >= 1.25: use the pre-installed 1.26.8 toolchain
	os.Setenv("PATH", "/opt/veriftools/go1.26.8/bin:"+os.Getenv("PATH"))
	os.Setenv("GOTOOLCHAIN", "local")
	os.Setenv("GOFLAGS", "-mod=mod")
	os.Setenv("GOPROXY", "off")
	os.Setenv("GOSUMDB", "off")
	if len(os.Args) < 2 {
		fmt.Fprintln(os.Stderr, "usage: govc <unit|check|replay|list> ...")
		os.Exit(2)
	}
	if pf := os.Getenv("GOVC_PROF"); pf != "" {
		f, err := os.Create(pf)
		if err == nil {
			pprof.StartCPUProfile(f)
			defer pprof.StopCPUProfile()
		}
	}
	switch os.Args[1] {
	case "unit":
		cmdUnit(os.Args[2:])
	case "check":
		cmdCheck(os.Args[2:])
	case "replay":
		cmdReplay(os.Args[2:])
	default:
		fmt.Fprintln(os.Stderr, "unknown command", os.Args[1])
		os.Exit(2)
	}
}

type oblResult struct {
	U     *Unit
	O     *Obligation
	R     SolveResult
	SMT   string
	Light string
	Focus string
}

// runUnits solves all obligations of the given units in parallel.
func runUnits(v *Verifier, units []*Unit, dir string, quickT, longT int, all bool, covers bool) []oblResult {
	type job struct {
		u *Unit
		o *Obligation
	}
	var jobs []job
	for _, u := range units {
		for _, o := range u.Obls {
			jobs = append(jobs, job{u, o})
		}
		if covers {
			for _, o := range u.Covers {
				jobs = append(jobs, job{u, o})
			}
		}
	}
	results := make([]oblResult, len(jobs))
	// sequential preparation (touches shared tables)
	for i, j := range jobs {
		results[i] = oblResult{U: j.u, O: j.o}
		if j.u.Enc != nil && j.u.Fn != nil && j.o.Expect != "sat" && !j.o.replayDone {
			j.o.replayTerms = v.replayTerms(j.u, j.o)
			j.o.replayDone = true
		} else {
			j.o.replayDone = true
		}
	}
	var wg sync.WaitGroup
	sem := make(chan struct{}, 12)
	for i := range jobs {
		wg.Add(1)
		sem <- struct{}{}
		go func(i int) {
			defer wg.Done()
			defer func() { <-sem }()
			r := &results[i]
			write := func(mode string) string {
				p, err := v.writeQueryMode(r.U, r.O, dir, "ALL", mode)
				if err != nil {
					fmt.Fprintln(os.Stderr, "write query:", err)
					os.Exit(2)
				}
				return p
			}
			if r.O.Kind == "cover" {
				// vacuity guard: only a definite unsat is a failure
				r.SMT = write("full")
				r.R = runSolver(context.Background(), solvers[0], r.SMT, 3)
				return
			}
			hasQuant := len(r.U.Q.quantDefs) > 0
			if hasQuant {
				r.Light = write("light")
				lr := runAttempt(context.Background(), solvers[0], r.Light, 3)
				if lr.Verdict == "unsat" {
					lr.Solver += "/light"
					r.R = lr
					r.SMT = r.Light
					return
				}
				if len(r.U.Q.quantDefs) > 6 {
					r.Focus = write("focused")
					fr := runAttempt(context.Background(), solvers[0], r.Focus, 6)
					if fr.Verdict == "unsat" {
						fr.Solver += "/focused"
						r.R = fr
						r.SMT = r.Focus
						return
					}
				}
			}
			r.SMT = write("full")
			r.R = solve(r.SMT, quickT, longT, all)
		}(i)
	}
	wg.Wait()
	// second chance: an obligation that was not decided in the parallel pass
	// (solver time limits are wall-clock and the machine may be loaded) is
	// retried with little parallelism and a longer limit before it is reported
	var retry []int
	for i := range results {
		r := &results[i]
		if r.O.Kind == "cover" || r.SMT == "" {
			continue
		}
		if r.R.Verdict == "timeout" || r.R.Verdict == "unknown" {
			retry = append(retry, i)
		}
	}
	if len(retry) > 0 && len(retry) <= 16 {
		sem2 := make(chan struct{}, 4)
		var wg2 sync.WaitGroup
		for _, i := range retry {
			wg2.Add(1)
			sem2 <- struct{}{}
			go func(i int) {
				defer wg2.Done()
				defer func() { <-sem2 }()
				r := &results[i]
				first := r.R
				full := r.SMT
				if strings.HasSuffix(full, ".light.smt2") || strings.HasSuffix(full, ".focus.smt2") {
					return
				}
				nr := solve(full, longT, longT*2, false)
				nr.Tried = append(append([]string{}, first.Tried...), append([]string{"retry"}, nr.Tried...)...)
				if nr.Verdict == "unsat" || nr.Verdict == "sat" {
					nr.Solver += "/retry"
				}
				r.R = nr
			}(i)
		}
		wg2.Wait()
	}
	if os.Getenv("GOVC_STATS") != "" {
		fmt.Fprintf(os.Stderr, "solver cache: %d hits, %d misses\n", cacheHits, cacheMisses)
	}
	return results
}

func cmdUnit(args []string) {
	fs := flag.NewFlagSet("unit", flag.ExitOnError)
	repo := fs.String("repo", "/repo", "repository")
	dir := fs.String("dir", "/tmp/govc-work", "work dir")
	verbose := fs.Bool("v", false, "verbose")
	qt := fs.Int("t", 10, "quick timeout")
	lt := fs.Int("T", 30, "long timeout")
	sweep := fs.Bool("sweep", false, "zero-annotation sweep mode: only functions without contract, pointer parameters assumed non-nil")
	fs.Parse(args)
	os.MkdirAll(*dir, 0o755)
	t0 := time.Now()
	v, err := loadVerifier(*repo)
	if err != nil {
		fmt.Fprintln(os.Stderr, err)
		os.Exit(2)
	}
	for _, e := range v.db.Errors {
		fmt.Println("CONTRACT ERROR:", e)
	}
	fmt.Printf("loaded in %.1fs; %d contracts\n", time.Since(t0).Seconds(), len(v.db.Funcs))
	var units []*Unit
	var keys []string
	for k := range v.fnByKey {
		keys = append(keys, k)
	}
	sort.Strings(keys)
	for _, pat := range fs.Args() {
		if strings.HasPrefix(pat, "lemma:") {
			for _, lm := range v.db.Lemmas {
				if strings.Contains(lm.Name, pat[6:]) {
					u := v.lemmaUnit(lm)
					units = append(units, u)
					fmt.Printf("lemma %s: %d obligations, err=%q\n", lm.Name, len(u.Obls), u.Err)
				}
			}
			continue
		}
		for _, k := range keys {
			if *sweep {
				v.sweepMode = true
				v.sweepScope = func(key string) bool { return v.db.Funcs[key] == nil && strings.HasPrefix(strings.TrimLeft(key, "(*"), repoMod) }
				fn := v.fnByKey[k]
				if !strings.Contains(k, pat) || !v.inRepo2(fn) || v.db.Funcs[k] != nil || fn.Blocks == nil || fn.Synthetic != "" {
					continue
				}
				if fn.Parent() != nil && !closureEscapes(fn) {
					continue // called in place: part of its parent
				}
				u := v.verifyFunc(fn, nil)
				units = append(units, u)
				if u.Err != "" {
					fmt.Printf("unit %s: err=%q\n", k, u.Err)
				}
				continue
			}
			if strings.Contains(k, pat) && v.inRepo(v.fnByKey[k]) && (v.fnByKey[k].Parent() == nil || v.db.Funcs[k] != nil) {
				fn := v.fnByKey[k]
				u := v.verifyFunc(fn, v.db.Funcs[k])
				units = append(units, u)
				fmt.Printf("unit %s: %d obligations, %d decls, err=%q\n", k, len(u.Obls), len(u.Q.decls), u.Err)
				for _, n := range u.Notes {
					fmt.Println("   note:", n)
				}
			}
		}
	}
	for _, e := range v.specErrors {
		fmt.Println("SPEC ERROR:", e)
	}
	res := runUnits(v, units, *dir, *qt, *lt, false, true)
	bad := 0
	for _, r := range res {
		want := "unsat"
		status := "ok"
		if r.O.Kind == "cover" {
			if r.R.Verdict == "unsat" {
				status = "FAIL"
				bad++
			}
		} else if r.R.Verdict != want {
			status = "FAIL"
			bad++
		}
		if *verbose || status == "FAIL" {
			fmt.Printf("%-5s %-70s %-8s %-7s %.2fs %s\n", status, r.O.Name, r.R.Verdict, r.R.Solver, r.R.Seconds, r.O.Pos)
			if status == "FAIL" && r.R.Verdict == "sat" {
				fmt.Println("      model:", strings.ReplaceAll(strings.TrimSpace(strings.SplitN(r.R.Output, "\n", 2)[1]), "\n", " "))
			}
			if r.R.Verdict == "error" {
				fmt.Println("      output:", firstLines(r.R.Output, 3), "file:", r.SMT)
			}
		}
	}
	fmt.Printf("%d obligations (+covers), %d failed, total %.1fs\n", len(res), bad, time.Since(t0).Seconds())
	if bad > 0 {
		os.Exit(1)
	}
}

func firstLines(s string, n int) string {
	ls := strings.Split(s, "\n")
	if len(ls) > n {
		ls = ls[:n]
	}
	return strings.Join(ls, " | ")
}

