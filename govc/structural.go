package main

// Structural obligations: frame / ownership / effect side conditions checked
// on the SSA and the static call graph (back end "structural").

import (
	"fmt"
	"go/types"
	"sort"
	"strings"

	"golang.org/x/tools/go/ssa"
)

func init() {
	structuralChecks["immutable-fields"] = checkImmutableFields
	structuralChecks["owned-writes"] = checkOwnedWrites
	structuralChecks["owned-calls"] = checkOwnedCalls
	structuralChecks["nonblocking"] = checkNonblocking
	structuralChecks["no-blocking-peer-send"] = checkNoBlockingPeerSend
	structuralChecks["no-mutable-globals"] = checkNoMutableGlobals
	structuralChecks["mapinv-writes"] = checkMapInvWrites
}

// checkNoMutableGlobals: package-level variables of the router packages are
// written only by package initialisers (no state shared between realms
// through globals).
func checkNoMutableGlobals(v *Verifier) []structResult {
	var bad []string
	n := 0
	for _, fn := range v.repoFuncs() {
		root := fn
		for root.Parent() != nil {
			root = root.Parent()
		}
		if root.Pkg == nil {
			continue
		}
		pp := root.Pkg.Pkg.Path()
		if pp != repoMod+"/router" && pp != repoMod+"/router/auth" && pp != repoMod+"/wamp" {
			continue
		}
		isInit := root.Name() == "init" || strings.HasPrefix(root.Name(), "init#")
		for _, b := range fn.Blocks {
			for _, ins := range b.Instrs {
				var target ssa.Value
				switch x := ins.(type) {
				case *ssa.Store:
					target = x.Addr
				case *ssa.MapUpdate:
					target = x.Map
				}
				if target == nil {
					continue
				}
				g := globalRoot(target, 0)
				if g == nil || g.Pkg == nil || !strings.HasPrefix(g.Pkg.Pkg.Path(), repoMod) {
					continue
				}
				n++
				if !isInit {
					bad = append(bad, fmt.Sprintf("%s writes package-level variable %s (%s)", funcDisplayName(fn), g.Name(), v.fset.Position(ins.Pos())))
				}
			}
		}
	}
	res := structResult{Name: "structural#no-mutable-globals", OK: len(bad) == 0, Detail: strings.Join(bad, "; ")}
	if res.OK {
		res.Detail = fmt.Sprintf("%d writes to package-level variables of router/auth/wamp, all in package initialisers", n)
	}
	return []structResult{res}
}

// globalRoot: the package-level variable an address or map operand is rooted in.
func globalRoot(x ssa.Value, depth int) *ssa.Global {
	if depth > 5 {
		return nil
	}
	switch y := x.(type) {
	case *ssa.Global:
		return y
	case *ssa.FieldAddr:
		return globalRoot(y.X, depth+1)
	case *ssa.IndexAddr:
		return globalRoot(y.X, depth+1)
	case *ssa.UnOp:
		return globalRoot(y.X, depth+1)
	case *ssa.Lookup:
		return globalRoot(y.X, depth+1)
	}
	return nil
}

// checkMapInvWrites: every update of a map whose type carries a declared value
// invariant happens in a function that is verified under contract (where the
// invariant is an obligation at the update).
func checkMapInvWrites(v *Verifier) []structResult {
	if len(v.db.MapInvs) == 0 {
		return nil
	}
	var bad []string
	n := 0
	for _, fn := range v.repoFuncs() {
		for _, b := range fn.Blocks {
			for _, ins := range b.Instrs {
				mu, ok := ins.(*ssa.MapUpdate)
				if !ok {
					continue
				}
				for _, mi := range v.db.MapInvs {
					pkg := v.pkgByPath[mi.Pkg]
					env := &SpecEnv{e: v.scratchEnc(), pkg: pkg, vars: map[string]Value{}, where: "mapinv"}
					mt, ok := env.tryType(mi.TypeText)
					if !ok || !types.Identical(mt, mu.Map.Type()) {
						continue
					}
					n++
					under := false
					for f := fn; f != nil; f = f.Parent() {
						if con := v.db.Funcs[funcKey(f)]; con != nil && !con.Trusted {
							under = true
						}
					}
					// functions without contract are verified by the safety
					// sweep (property C04), which emits the same obligation
					for _, sp := range []string{"C04", "C17"} {
						if c4, ok := propConfigs[sp]; ok && matchAny(funcKey(fn), c4.Sweep) && !matchAny(funcKey(fn), c4.SweepSkip) {
							under = true
						}
					}
					if !under {
						bad = append(bad, fmt.Sprintf("%s updates a %s outside any function under contract (%s)", funcDisplayName(fn), mi.TypeText, v.fset.Position(ins.Pos())))
					}
				}
			}
		}
	}
	res := structResult{Name: "structural#mapinv-writes", OK: len(bad) == 0, Detail: strings.Join(bad, "; ")}
	if res.OK {
		res.Detail = fmt.Sprintf("%d updates of maps with a declared value invariant, all inside functions under contract", n)
	}
	return []structResult{res}
}

func (v *Verifier) repoFuncs() []*ssa.Function {
	var out []*ssa.Function
	for _, fn := range v.fnByKey {
		if fn.Blocks == nil || fn.Synthetic != "" {
			continue
		}
		root := fn
		for root.Parent() != nil {
			root = root.Parent()
		}
		if root.Pkg == nil || !strings.HasPrefix(root.Pkg.Pkg.Path(), repoMod) {
			continue
		}
		out = append(out, fn)
	}
	sort.Slice(out, func(i, j int) bool { return out[i].String() < out[j].String() })
	return out
}

// freshBase: is the object whose field is written allocated in this very
// function (construction)?
func freshBase(x ssa.Value) bool {
	switch b := x.(type) {
	case *ssa.Alloc:
		return true
	case *ssa.FieldAddr:
		return freshBase(b.X)
	case *ssa.Phi:
		for _, e := range b.Edges {
			if !freshBase(e) {
				return false
			}
		}
		return true
	}
	return false
}

func checkImmutableFields(v *Verifier) []structResult {
	var bad []string
	n := 0
	for _, fn := range v.repoFuncs() {
		if strings.Contains(fn.String(), repoMod+"/client") {
			continue // the client library is a different role; the claim is about the router side
		}
		for _, b := range fn.Blocks {
			for _, ins := range b.Instrs {
				st, ok := ins.(*ssa.Store)
				if !ok {
					continue
				}
				fa, ok := st.Addr.(*ssa.FieldAddr)
				if !ok {
					continue
				}
				structT := fa.X.Type().Underlying().(*types.Pointer).Elem()
				s := structT.Underlying().(*types.Struct)
				key := fmt.Sprintf("F:%s:%d:%s", structKey(structT), fa.Field, s.Field(fa.Field).Name())
				if !v.immutableKeys[key] {
					continue
				}
				n++
				if !freshBase(fa.X) {
					bad = append(bad, fmt.Sprintf("%s writes immutable field %s.%s of an existing object (%s)", funcDisplayName(fn), structKey(structT), s.Field(fa.Field).Name(), v.fset.Position(st.Pos())))
				}
			}
		}
	}
	res := structResult{Name: "structural#immutable-fields", OK: len(bad) == 0, Detail: strings.Join(bad, "; ")}
	if res.OK {
		res.Detail = fmt.Sprintf("%d stores to immutable fields, all on objects under construction", n)
	}
	return []structResult{res}
}

// componentOf: the component on whose goroutine a function runs, from its
// contract (or, for a closure that is called in place, from its parent).
func (v *Verifier) componentOf(fn *ssa.Function) string {
	for f := fn; f != nil; f = f.Parent() {
		if con := v.db.Funcs[funcKey(f)]; con != nil {
			if con.On != "" {
				return con.On
			}
			if f != fn {
				continue
			}
		}
		// a closure posted on a component's action channel runs on that
		// component's goroutine
		if f.Parent() != nil {
			if c := v.postedTo(f); c != "" {
				return c
			}
		}
		// any other closure that is handed to another goroutine must carry
		// its own contract; one that is only called in place inherits.
		if f.Parent() != nil && closureEscapes(f) {
			return ""
		}
	}
	return ""
}

// closureEscapes: is the anonymous function passed anywhere other than a
// direct call (sent on a channel, stored, started with go)?
func closureEscapes(fn *ssa.Function) bool {
	p := fn.Parent()
	if p == nil {
		return false
	}
	for _, b := range p.Blocks {
		for _, ins := range b.Instrs {
			mc, ok := ins.(*ssa.MakeClosure)
			if !ok || mc.Fn != ssa.Value(fn) {
				continue
			}
			refs := mc.Referrers()
			if refs == nil {
				continue
			}
			for _, r := range *refs {
				switch x := r.(type) {
				case *ssa.Call:
					if x.Common().Value != ssa.Value(mc) {
						// passed as an argument: treated as called by the callee in place
						// only for same-package synchronous helpers
						if sc := x.Common().StaticCallee(); sc == nil || sc.Pkg != p.Pkg {
							return true
						}
					}
				case *ssa.Defer:
				case *ssa.DebugRef:
				case *ssa.Store:
					// stored into a local variable that is later called: look through
					if a, ok := x.Addr.(*ssa.Alloc); ok && !a.Heap {
						continue
					}
					return true
				default:
					return true
				}
			}
		}
	}
	return false
}

func (v *Verifier) ownedStruct(t types.Type) string {
	n, ok := types.Unalias(t).(*types.Named)
	if !ok || n.Obj().Pkg() == nil {
		return ""
	}
	return v.db.Owned[n.Obj().Pkg().Path()+"."+n.Obj().Name()]
}

// ownedMapRoot: if the map operand is loaded from a field of an owned struct
// (possibly through another owned map's value), return the component.
func (v *Verifier) ownedRoot(x ssa.Value, depth int) string {
	if depth > 4 {
		return ""
	}
	switch y := x.(type) {
	case *ssa.UnOp:
		if fa, ok := y.X.(*ssa.FieldAddr); ok {
			structT := fa.X.Type().Underlying().(*types.Pointer).Elem()
			if c := v.ownedStruct(structT); c != "" {
				return c
			}
		}
	case *ssa.Lookup:
		return v.ownedRoot(y.X, depth+1)
	case *ssa.Extract:
		return v.ownedRoot(y.Tuple, depth+1)
	case *ssa.Phi:
		for _, e := range y.Edges {
			if c := v.ownedRoot(e, depth+1); c != "" {
				return c
			}
		}
	}
	return ""
}

func checkOwnedWrites(v *Verifier) []structResult {
	var bad []string
	n := 0
	for _, fn := range v.repoFuncs() {
		comp := v.componentOf(fn)
		for _, b := range fn.Blocks {
			for _, ins := range b.Instrs {
				owner, what := "", ""
				switch x := ins.(type) {
				case *ssa.Store:
					if fa, ok := x.Addr.(*ssa.FieldAddr); ok {
						structT := fa.X.Type().Underlying().(*types.Pointer).Elem()
						if c := v.ownedStruct(structT); c != "" && !freshBase(fa.X) {
							owner, what = c, "field "+structKey(structT)+"."+structT.Underlying().(*types.Struct).Field(fa.Field).Name()
						}
					}
				case *ssa.MapUpdate:
					if c := v.ownedRoot(x.Map, 0); c != "" {
						owner, what = c, "map "+x.Map.Type().String()
					}
				case *ssa.Call:
					if bi, ok := x.Common().Value.(*ssa.Builtin); ok && bi.Name() == "delete" {
						if c := v.ownedRoot(x.Common().Args[0], 0); c != "" {
							owner, what = c, "map (delete) "+x.Common().Args[0].Type().String()
						}
					}
				}
				if owner == "" {
					continue
				}
				n++
				if comp != owner {
					bad = append(bad, fmt.Sprintf("%s (component %q) writes %s owned by %s (%s)", funcDisplayName(fn), comp, what, owner, v.fset.Position(ins.Pos())))
				}
			}
		}
	}
	res := structResult{Name: "structural#owned-writes", OK: len(bad) == 0, Detail: strings.Join(bad, "; ")}
	if res.OK {
		res.Detail = fmt.Sprintf("%d writes to component-owned state, all inside functions running on the owner", n)
	}
	return []structResult{res}
}

// checkOwnedCalls: a function that runs on a component's goroutine is only
// called from functions of the same component (or from closures posted to it).
func checkOwnedCalls(v *Verifier) []structResult {
	var bad []string
	n := 0
	for _, fn := range v.repoFuncs() {
		comp := v.componentOf(fn)
		for _, b := range fn.Blocks {
			for _, ins := range b.Instrs {
				var c *ssa.CallCommon
				switch x := ins.(type) {
				case *ssa.Call:
					c = x.Common()
				case *ssa.Defer:
					c = x.Common()
				case *ssa.Go:
					c = x.Common()
				}
				if c == nil {
					continue
				}
				callee := c.StaticCallee()
				if callee == nil {
					continue
				}
				con := v.db.Funcs[funcKey(callee)]
				if con == nil || con.On == "" || callee.Parent() != nil {
					continue
				}
				n++
				if _, isGo := ins.(*ssa.Go); isGo || comp != con.On {
					// constructors may call before the goroutine is started
					if isConstructorOf(fn, con.On) {
						continue
					}
					bad = append(bad, fmt.Sprintf("%s (component %q) calls %s which runs on %s (%s)", funcDisplayName(fn), comp, funcDisplayName(callee), con.On, v.fset.Position(ins.Pos())))
				}
			}
		}
	}
	res := structResult{Name: "structural#owned-calls", OK: len(bad) == 0, Detail: strings.Join(bad, "; ")}
	if res.OK {
		res.Detail = fmt.Sprintf("%d calls of owner-confined functions, all from the owner", n)
	}
	return []structResult{res}
}

func isConstructorOf(fn *ssa.Function, comp string) bool {
	name := strings.ToLower(fn.Name())
	return name == "new"+comp || (fn.Parent() == nil && strings.HasPrefix(name, "preinit"))
}

// checkNonblocking: functions whose contract says nonblocking contain no
// blocking channel operation and call only nonblocking/trusted functions.
func checkNonblocking(v *Verifier) []structResult {
	var out []structResult
	var keys []string
	for k, con := range v.db.Funcs {
		if con.Nonblock {
			keys = append(keys, k)
		}
	}
	sort.Strings(keys)
	for _, k := range keys {
		fn := v.fnByKey[k]
		if fn == nil {
			out = append(out, structResult{Name: "structural#nonblocking[" + k + "]", OK: false, Detail: "function not found"})
			continue
		}
		var bad []string
		v.blockingOps(fn, map[*ssa.Function]bool{}, &bad, 0)
		r := structResult{Name: "structural#nonblocking[" + funcDisplayName(fn) + "]", OK: len(bad) == 0, Detail: strings.Join(bad, "; ")}
		if r.OK {
			r.Detail = "no blocking send/receive/select on any path, including in-place callees"
		}
		out = append(out, r)
	}
	return out
}

func (v *Verifier) blockingOps(fn *ssa.Function, seen map[*ssa.Function]bool, bad *[]string, depth int) {
	if seen[fn] || depth > 8 {
		return
	}
	seen[fn] = true
	for _, b := range fn.Blocks {
		for _, ins := range b.Instrs {
			switch x := ins.(type) {
			case *ssa.Send:
				*bad = append(*bad, fmt.Sprintf("blocking send in %s (%s)", funcDisplayName(fn), v.fset.Position(x.Pos())))
			case *ssa.Select:
				if x.Blocking {
					*bad = append(*bad, fmt.Sprintf("blocking select in %s (%s)", funcDisplayName(fn), v.fset.Position(x.Pos())))
				}
			case *ssa.UnOp:
				if x.Op.String() == "<-" {
					*bad = append(*bad, fmt.Sprintf("channel receive in %s (%s)", funcDisplayName(fn), v.fset.Position(x.Pos())))
				}
			case *ssa.Call:
				c := x.Common()
				callee := c.StaticCallee()
				if callee == nil {
					if mc, ok := c.Value.(*ssa.MakeClosure); ok {
						callee = mc.Fn.(*ssa.Function)
					}
				}
				if callee == nil || callee.Blocks == nil {
					continue
				}
				if con := v.db.Funcs[funcKey(callee)]; con != nil && con.Nonblock {
					continue
				}
				if v.inRepo(callee) || callee.Parent() != nil {
					v.blockingOps(callee, seen, bad, depth+1)
				}
			}
		}
	}
}

// postedTo: the component whose actionChan the anonymous function is sent on.
func (v *Verifier) postedTo(fn *ssa.Function) string {
	p := fn.Parent()
	if p == nil {
		return ""
	}
	for _, b := range p.Blocks {
		for _, ins := range b.Instrs {
			mc, ok := ins.(*ssa.MakeClosure)
			if !ok || mc.Fn != ssa.Value(fn) {
				continue
			}
			refs := mc.Referrers()
			if refs == nil {
				continue
			}
			for _, r := range *refs {
				snd, ok := r.(*ssa.Send)
				if !ok || snd.X != ssa.Value(mc) {
					continue
				}
				ld, ok := snd.Chan.(*ssa.UnOp)
				if !ok {
					continue
				}
				fa, ok := ld.X.(*ssa.FieldAddr)
				if !ok {
					continue
				}
				structT := fa.X.Type().Underlying().(*types.Pointer).Elem()
				st := structT.Underlying().(*types.Struct)
				if st.Field(fa.Field).Name() != "actionChan" {
					continue
				}
				if c := v.ownedStruct(structT); c != "" {
					return c
				}
			}
		}
	}
	return ""
}

// inRepo2: like inRepo but also true for anonymous functions (whose Pkg may be
// inherited from their parent).
func (v *Verifier) inRepo2(fn *ssa.Function) bool {
	root := fn
	for root.Parent() != nil {
		root = root.Parent()
	}
	return root.Pkg != nil && strings.HasPrefix(root.Pkg.Pkg.Path(), repoMod)
}

// checkNoBlockingPeerSend: code that runs on the broker or dealer goroutine
// (every function or action closure declared "on broker" / "on dealer", with
// its in-place callees) never performs a blocking send of a wamp.Message: a
// peer, including the realm's meta peer, is only ever offered a message with a
// select that has a default case. (Blocking sends on other channels - the
// reply channels of meta procedures, whose requester is waiting - are not
// covered by this check.)
func checkNoBlockingPeerSend(v *Verifier) []structResult {
	var keys []string
	for k, con := range v.db.Funcs {
		if con.On == "broker" || con.On == "dealer" {
			keys = append(keys, k)
		}
	}
	sort.Strings(keys)
	var bad []string
	n := 0
	for _, k := range keys {
		fn := v.fnByKey[k]
		if fn == nil {
			continue
		}
		n++
		v.peerSends(fn, map[*ssa.Function]bool{}, &bad, 0)
	}
	res := structResult{Name: "structural#no-blocking-peer-send", OK: len(bad) == 0, Detail: strings.Join(bad, "; ")}
	if res.OK {
		res.Detail = fmt.Sprintf("%d functions and action closures running on the broker or dealer goroutine, none with a blocking send of a wamp.Message", n)
	}
	return []structResult{res}
}

func isMessageChan(t types.Type) bool {
	ch, ok := t.Underlying().(*types.Chan)
	if !ok {
		return false
	}
	n, ok := types.Unalias(ch.Elem()).(*types.Named)
	return ok && n.Obj().Name() == "Message" && n.Obj().Pkg() != nil && strings.HasSuffix(n.Obj().Pkg().Path(), "/wamp")
}

func (v *Verifier) peerSends(fn *ssa.Function, seen map[*ssa.Function]bool, bad *[]string, depth int) {
	if seen[fn] || depth > 8 {
		return
	}
	seen[fn] = true
	for _, b := range fn.Blocks {
		for _, ins := range b.Instrs {
			switch x := ins.(type) {
			case *ssa.Send:
				if isMessageChan(x.Chan.Type()) {
					*bad = append(*bad, fmt.Sprintf("blocking send of a message in %s (%s)", funcDisplayName(fn), v.fset.Position(x.Pos())))
				}
			case *ssa.Select:
				if x.Blocking {
					for _, st := range x.States {
						if st.Dir == types.SendOnly && isMessageChan(st.Chan.Type()) {
							*bad = append(*bad, fmt.Sprintf("blocking select sending a message in %s (%s)", funcDisplayName(fn), v.fset.Position(x.Pos())))
						}
					}
				}
			case *ssa.Call:
				c := x.Common()
				callee := c.StaticCallee()
				if callee == nil {
					if mc, ok := c.Value.(*ssa.MakeClosure); ok {
						callee = mc.Fn.(*ssa.Function)
					}
				}
				if callee == nil || callee.Blocks == nil {
					continue
				}
				if v.inRepo(callee) || callee.Parent() != nil {
					v.peerSends(callee, seen, bad, depth+1)
				}
			}
		}
	}
}
