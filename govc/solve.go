package main

// Solver portfolio: z3-new first, then z3 4.8.12 and cvc5 raced.

import (
	"bytes"
	"context"
	"crypto/sha256"
	"encoding/json"
	"fmt"
	"os"
	"os/exec"
	"path/filepath"
	"sync/atomic"
	"strconv"
	"strings"
	"sync"
	"time"
)

type SolveResult struct {
	Verdict string // unsat | sat | unknown | timeout | error
	Solver  string
	Seconds float64
	Output  string
	Tried   []string
}

type solverSpec struct {
	name string
	bin  string
	args func(timeoutS int) []string
}

var solvers = []solverSpec{
	{"z3-new", "z3-new", func(t int) []string { return []string{"-T:" + itoa(t)} }},
	{"z3", "z3", func(t int) []string { return []string{"-T:" + itoa(t)} }},
	{"cvc5", "cvc5", func(t int) []string {
		return []string{"--tlimit=" + itoa(t*1000), "--strings-exp", "--full-saturate-quant"}
	}},
}

func itoa(n int) string { return strconv.Itoa(n) }

// Verdict cache: a definite verdict for byte-identical query text, solver and
// options is reused. The query itself is always regenerated from the current
// tree; only the solver call is memoised. Disabled with GOVC_NOCACHE=1.
var cacheDir = func() string {
	if os.Getenv("GOVC_NOCACHE") != "" {
		return ""
	}
	d := filepath.Join(verifDir(), "work", "cache")
	if err := os.MkdirAll(d, 0o755); err != nil {
		return ""
	}
	return d
}()

var cacheHits, cacheMisses int64

func cacheKey(s solverSpec, path string) string {
	data, err := os.ReadFile(path)
	if err != nil {
		return ""
	}
	h := sha256.Sum256(append([]byte(s.name+"|"+strings.Join(s.args(0), " ")+"|"), data...))
	return fmt.Sprintf("%x", h)
}

// runAttempt is runSolver for the cheap pre-attempts (light / focused query
// variants): a "not proved within the time limit" outcome is cached as well,
// because it only decides whether the next variant is tried.
func runAttempt(ctx context.Context, s solverSpec, path string, timeoutS int) SolveResult {
	key := ""
	if cacheDir != "" {
		if k := cacheKey(s, path); k != "" {
			key = k + ".attempt" + strconv.Itoa(timeoutS)
			if data, err := os.ReadFile(filepath.Join(cacheDir, key)); err == nil {
				var r SolveResult
				if json.Unmarshal(data, &r) == nil {
					atomic.AddInt64(&cacheHits, 1)
					r.Solver = s.name + "/cached"
					r.Seconds = 0
					return r
				}
			}
		}
	}
	r := runSolver(ctx, s, path, timeoutS)
	if key != "" && r.Verdict != "unsat" && r.Verdict != "error" {
		r2 := r
		r2.Output = ""
		if data, err := json.Marshal(r2); err == nil {
			tmp := filepath.Join(cacheDir, key+".tmp"+strconv.Itoa(os.Getpid()))
			if os.WriteFile(tmp, data, 0o644) == nil {
				os.Rename(tmp, filepath.Join(cacheDir, key))
			}
		}
	}
	return r
}

func runSolver(ctx context.Context, s solverSpec, path string, timeoutS int) SolveResult {
	key := ""
	if cacheDir != "" {
		key = cacheKey(s, path)
		if key != "" {
			if data, err := os.ReadFile(filepath.Join(cacheDir, key)); err == nil {
				var r SolveResult
				if json.Unmarshal(data, &r) == nil && (r.Verdict == "unsat" || r.Verdict == "sat") {
					atomic.AddInt64(&cacheHits, 1)
					r.Solver = s.name + "/cached"
					r.Seconds = 0
					return r
				}
			}
		}
	}
	r := runSolverRaw(ctx, s, path, timeoutS)
	if key != "" && (r.Verdict == "unsat" || r.Verdict == "sat") {
		atomic.AddInt64(&cacheMisses, 1)
		if data, err := json.Marshal(r); err == nil {
			tmp := filepath.Join(cacheDir, key+".tmp"+strconv.Itoa(os.Getpid()))
			if os.WriteFile(tmp, data, 0o644) == nil {
				os.Rename(tmp, filepath.Join(cacheDir, key))
			}
		}
	}
	return r
}

func runSolverRaw(ctx context.Context, s solverSpec, path string, timeoutS int) SolveResult {
	start := time.Now()
	cctx, cancel := context.WithTimeout(ctx, time.Duration(timeoutS+2)*time.Second)
	defer cancel()
	args := append(s.args(timeoutS), path)
	cmd := exec.CommandContext(cctx, s.bin, args...)
	var out bytes.Buffer
	cmd.Stdout = &out
	cmd.Stderr = &out
	err := cmd.Run()
	res := SolveResult{Solver: s.name, Seconds: time.Since(start).Seconds(), Output: out.String()}
	first := strings.TrimSpace(strings.SplitN(out.String(), "\n", 2)[0])
	switch first {
	case "unsat", "sat":
		res.Verdict = first
	case "unknown":
		res.Verdict = "unknown"
	case "timeout":
		res.Verdict = "timeout"
	default:
		if cctx.Err() != nil {
			res.Verdict = "timeout"
		} else if err != nil || first != "" {
			res.Verdict = "error"
		} else {
			res.Verdict = "unknown"
		}
	}
	return res
}

// solve runs the portfolio on one query file.
func solve(path string, quickT, longT int, all bool) SolveResult {
	ctx := context.Background()
	first := runSolver(ctx, solvers[0], path, quickT)
	tried := []string{first.Solver + ":" + first.Verdict}
	if (first.Verdict == "unsat" || first.Verdict == "sat") && !all {
		first.Tried = tried
		return first
	}
	// race the others (and z3-new with the long timeout)
	rctx, cancel := context.WithCancel(ctx)
	defer cancel()
	type item struct{ r SolveResult }
	ch := make(chan SolveResult, 3)
	var wg sync.WaitGroup
	cands := []solverSpec{solvers[1], solvers[2]}
	if first.Verdict != "unsat" && first.Verdict != "sat" && longT > quickT {
		cands = append(cands, solvers[0])
	}
	otherT := longT
	if first.Verdict == "unsat" || first.Verdict == "sat" {
		// agreement check only (thorough tier): a short limit is enough,
		// an undecided second opinion is not a disagreement
		otherT = min(longT, 15)
	}
	for _, s := range cands {
		wg.Add(1)
		go func(s solverSpec) {
			defer wg.Done()
			ch <- runSolver(rctx, s, path, otherT)
		}(s)
	}
	go func() { wg.Wait(); close(ch) }()
	best := first
	var results []SolveResult
	for r := range ch {
		results = append(results, r)
		tried = append(tried, r.Solver+":"+r.Verdict)
		if r.Verdict == "unsat" || r.Verdict == "sat" {
			if best.Verdict != "unsat" && best.Verdict != "sat" {
				best = r
				if !all {
					cancel()
				}
			} else if best.Verdict != r.Verdict {
				best.Verdict = "error"
				best.Output = "solver disagreement: " + strings.Join(tried, " ")
			}
		}
	}
	best.Tried = tried
	return best
}
