package main

// Replay of solver counterexamples against the real code: a generated
// in-package test is injected with `go test -overlay` (nothing is written to
// the repository), the real function is run on the model's inputs and the
// contract's clauses are evaluated on the observed behaviour.

import (
	"bytes"
	"context"
	"encoding/json"
	"fmt"
	"go/types"
	"os"
	"os/exec"
	"path/filepath"
	"strconv"
	"strings"
	"time"

	"golang.org/x/tools/go/ssa"
)

type replayResult struct {
	Confirmed bool     `json:"confirmed"`
	Attempted bool     `json:"attempted"`
	Detail    string   `json:"detail"`
	TestFile  string   `json:"test_file,omitempty"`
	Output    string   `json:"output,omitempty"`
	Inputs    []string `json:"inputs,omitempty"`
	Cmd       string   `json:"cmd,omitempty"`
}

// modelInputs lists the get-value terms a unit needs for replay: parameters
// and, for pointer-to-struct parameters, their scalar fields in the entry heap.
type modelTerm struct {
	Name string // key in the model map
	Term string
}

func (v *Verifier) replayTerms(u *Unit, o *Obligation) []modelTerm {
	var out []modelTerm
	declared := map[string]bool{}
	for _, d := range u.Q.decls[:o.NDecls] {
		if strings.HasPrefix(d, "(declare-const ") {
			f := strings.Fields(d)
			declared[f[1]] = true
		}
	}
	e := u.Enc
	e.unitFuns = u.Funs
	for _, in := range u.Inputs {
		if in.val.term == "" || len(in.val.tuple) > 0 {
			continue
		}
		out = append(out, modelTerm{in.name, in.val.term})
		if pt, ok := in.val.typ.Underlying().(*types.Pointer); ok {
			if _, isStruct := pt.Elem().Underlying().(*types.Struct); isStruct {
				out = append(out, e.structFieldTerms(in.name, pt.Elem(), in.val.term, declared, 0)...)
			}
		}
	}
	return out
}

func (e *Enc) structFieldTerms(prefix string, t types.Type, ref string, declared map[string]bool, depth int) []modelTerm {
	var out []modelTerm
	if depth > 2 {
		return nil
	}
	st := t.Underlying().(*types.Struct)
	for i := 0; i < st.NumFields(); i++ {
		ft := st.Field(i).Type()
		if _, nested := ft.Underlying().(*types.Struct); nested {
			fn := fmt.Sprintf("fa_%s_%d", structKey(t), i)
			if e.unitFuns[fn] {
				out = append(out, e.structFieldTerms(prefix+"."+st.Field(i).Name(), ft, "("+fn+" "+ref+")", declared, depth+1)...)
			}
			continue
		}
		if !reifiableScalar(ft) {
			continue
		}
		key := e.fieldKey(t, i)
		if e.entry == nil {
			continue
		}
		h, ok := e.entry.ep.cache[key]
		if !ok || !declared[h] {
			continue
		}
		out = append(out, modelTerm{prefix + "." + st.Field(i).Name(), sel(h, ref)})
	}
	return out
}

func reifiableScalar(t types.Type) bool {
	b, ok := t.Underlying().(*types.Basic)
	if !ok {
		return false
	}
	return b.Info()&(types.IsBoolean|types.IsInteger|types.IsString) != 0
}

// goLiteral renders an SMT model value as a Go expression of type t.
func goLiteral(t types.Type, val string, qual types.Qualifier) (string, bool) {
	b, ok := t.Underlying().(*types.Basic)
	if !ok {
		return "", false
	}
	ts := types.TypeString(t, qual)
	switch {
	case b.Info()&types.IsBoolean != 0:
		if val == "true" || val == "false" {
			return ts + "(" + val + ")", true
		}
	case b.Info()&types.IsInteger != 0:
		n, ok := smtIntValue(val)
		if !ok {
			return "", false
		}
		return ts + "(" + n + ")", true
	case b.Info()&types.IsString != 0:
		s, ok := smtStringValue(val)
		if !ok {
			return "", false
		}
		return ts + "(" + strconv.Quote(s) + ")", true
	}
	return "", false
}

func smtIntValue(v string) (string, bool) {
	v = strings.TrimSpace(v)
	if strings.HasPrefix(v, "(- ") && strings.HasSuffix(v, ")") {
		n := strings.TrimSpace(v[3 : len(v)-1])
		if _, err := strconv.ParseUint(n, 10, 64); err == nil {
			return "-" + n, true
		}
		return "", false
	}
	if _, err := strconv.ParseUint(v, 10, 64); err == nil {
		return v, true
	}
	return "", false
}

// smtStringValue decodes an SMT-LIB string literal.
func smtStringValue(v string) (string, bool) {
	v = strings.TrimSpace(v)
	if len(v) < 2 || v[0] != '"' || v[len(v)-1] != '"' {
		return "", false
	}
	body := strings.ReplaceAll(v[1:len(v)-1], `""`, `"`)
	var b strings.Builder
	for i := 0; i < len(body); i++ {
		if strings.HasPrefix(body[i:], `\u{`) {
			j := strings.Index(body[i:], "}")
			if j > 0 {
				if n, err := strconv.ParseUint(body[i+3:i+j], 16, 32); err == nil {
					b.WriteRune(rune(n))
					i += j
					continue
				}
			}
		}
		if strings.HasPrefix(body[i:], `\x`) && i+3 < len(body) {
			if n, err := strconv.ParseUint(body[i+2:i+4], 16, 8); err == nil {
				b.WriteByte(byte(n))
				i += 3
				continue
			}
		}
		b.WriteByte(body[i])
	}
	return b.String(), true
}

type replayObs struct {
	Panic   string            `json:"panic"`
	Paniced bool              `json:"panicked"`
	Results []json.RawMessage `json:"results"`
	Post    map[string]any    `json:"post"`
}

func replayOnRealCode(v *Verifier, u *Unit, o *Obligation, model map[string]string, repo string) replayResult {
	fn := u.Fn
	res := replayResult{}
	if fn.Parent() != nil || fn.Pkg == nil {
		res.Detail = "anonymous function: not replayable in isolation"
		return res
	}
	pkg := fn.Pkg.Pkg
	qual := func(p *types.Package) string {
		if p == pkg {
			return ""
		}
		return p.Name()
	}
	imports := map[string]string{}
	var setup []string
	var argNames []string
	var postFields []string
	for i, p := range fn.Params {
		name := fmt.Sprintf("a%d", i)
		argNames = append(argNames, name)
		val, has := model["in_"+p.Name()+"!"+modelSuffix(model, "in_"+p.Name())]
		_ = has
		mv, ok := lookupModel(model, "in_"+p.Name())
		if ok {
			val = mv
		}
		t := p.Type()
		if n, isNamed := types.Unalias(t).(*types.Named); isNamed && n.Obj().Pkg() != nil && n.Obj().Pkg() != pkg {
			imports[n.Obj().Pkg().Path()] = n.Obj().Pkg().Name()
		}
		if lit, ok2 := goLiteral(t, val, qual); ok2 && ok {
			setup = append(setup, fmt.Sprintf("\t%s := %s", name, lit))
			res.Inputs = append(res.Inputs, p.Name()+" = "+lit)
			continue
		}
		if pt, isPtr := t.Underlying().(*types.Pointer); isPtr {
			if st, isStruct := pt.Elem().Underlying().(*types.Struct); isStruct && ok {
				if n, _ := smtIntValue(val); n == "0" {
					setup = append(setup, fmt.Sprintf("\tvar %s %s", name, types.TypeString(t, qual)))
					res.Inputs = append(res.Inputs, p.Name()+" = nil")
					continue
				}
				setup = append(setup, fmt.Sprintf("\t%s := new(%s)", name, types.TypeString(pt.Elem(), qual)))
				res.Inputs = append(res.Inputs, p.Name()+" = new")
				okAll := reifyFields(&setup, &postFields, &res, name, "in_"+p.Name(), p.Name(), pt.Elem(), st, model, qual, pkg)
				if okAll {
					continue
				}
			}
		}
		res.Detail = fmt.Sprintf("parameter %s of type %s is not reifiable from the model", p.Name(), t)
		return res
	}
	// call expression
	var call string
	if fn.Signature.Recv() != nil {
		call = fmt.Sprintf("%s.%s(%s)", argNames[0], fn.Name(), strings.Join(argNames[1:], ", "))
	} else {
		call = fmt.Sprintf("%s(%s)", fn.Name(), strings.Join(argNames, ", "))
	}
	nres := fn.Signature.Results().Len()
	var rnames []string
	for i := 0; i < nres; i++ {
		rnames = append(rnames, fmt.Sprintf("r%d", i))
	}
	var b strings.Builder
	fmt.Fprintf(&b, "package %s\n\nimport (\n\t\"encoding/json\"\n\t\"fmt\"\n\t\"testing\"\n", pkg.Name())
	for path, name := range imports {
		fmt.Fprintf(&b, "\t%s %q\n", name, path)
	}
	b.WriteString(")\n\n// generated by govc: replay of a solver counterexample on the real code\n")
	b.WriteString("func TestGovcReplay(t *testing.T) {\n")
	b.WriteString(strings.Join(setup, "\n") + "\n")
	b.WriteString("\tobs := map[string]any{}\n")
	b.WriteString("\tdefer func() {\n\t\tif r := recover(); r != nil {\n\t\t\tobs[\"panicked\"] = true\n\t\t\tobs[\"panic\"] = fmt.Sprint(r)\n\t\t}\n\t\tout, _ := json.Marshal(obs)\n\t\tfmt.Printf(\"GOVC-REPLAY %s\\n\", out)\n\t}()\n")
	if nres > 0 {
		fmt.Fprintf(&b, "\t%s := %s\n", strings.Join(rnames, ", "), call)
		fmt.Fprintf(&b, "\tobs[\"results\"] = []any{%s}\n", strings.Join(rnames, ", "))
	} else {
		fmt.Fprintf(&b, "\t%s\n", call)
	}
	b.WriteString("\tpost := map[string]any{}\n")
	for _, pf := range postFields {
		b.WriteString("\t" + pf + "\n")
	}
	b.WriteString("\tobs[\"post\"] = post\n}\n")
	dir, err := os.MkdirTemp("", "govc-replay-")
	if err != nil {
		res.Detail = err.Error()
		return res
	}
	defer os.RemoveAll(dir)
	testSrc := filepath.Join(dir, "govc_replay_test.go")
	os.WriteFile(testSrc, []byte(b.String()), 0o644)
	rel := strings.TrimPrefix(pkg.Path(), repoMod)
	target := filepath.Join(repo, rel, "govc_replay_test.go")
	ov, _ := json.Marshal(map[string]any{"Replace": map[string]string{target: testSrc}})
	ovPath := filepath.Join(dir, "overlay.json")
	os.WriteFile(ovPath, ov, 0o644)
	ctx, cancel := context.WithTimeout(context.Background(), 180*time.Second)
	defer cancel()
	cmd := exec.CommandContext(ctx, goBin(), "test", "-overlay", ovPath, "-v", "-vet=off", "-count=1", "-timeout", "60s", "-run", "^TestGovcReplay$", "."+rel)
	cmd.Dir = repo
	cmd.Env = append(os.Environ(), "GOFLAGS=-mod=mod", "GOPROXY=off", "GOSUMDB=off", "GOTOOLCHAIN=local")
	var out bytes.Buffer
	cmd.Stdout = &out
	cmd.Stderr = &out
	cmd.Run()
	res.Attempted = true
	res.TestFile = b.String()
	res.Cmd = "go test -overlay <overlay> -vet=off -timeout 60s -run ^TestGovcReplay$ ." + rel
	res.Output = truncate(out.String(), 3000)
	var obs replayObs
	found := false
	for _, ln := range strings.Split(out.String(), "\n") {
		if strings.HasPrefix(ln, "GOVC-REPLAY ") {
			if json.Unmarshal([]byte(ln[12:]), &obs) == nil {
				found = true
			}
		}
	}
	if !found {
		res.Detail = "replay test produced no observation"
		return res
	}
	if obs.Paniced {
		res.Detail = "real code panics on the model input: " + obs.Panic
		res.Confirmed = o.Kind == "nopanic" || u.Contract == nil || !u.Contract.MayPanic
		return res
	}
	if o.Kind == "nopanic" {
		res.Detail = "real code does not panic on the model input"
		return res
	}
	if u.Contract == nil {
		res.Detail = "no contract clauses to evaluate"
		return res
	}
	// evaluate the ensures clauses on the observed behaviour
	failed, detail := v.evalEnsuresConcrete(u, model, &obs)
	res.Detail = detail
	res.Confirmed = failed
	return res
}

func goBin() string {
	if p := os.Getenv("GOVC_GO"); p != "" {
		return p
	}
	return "go1.26.8"
}

func modelSuffix(model map[string]string, prefix string) string { return "" }

// lookupModel finds the value of the constant named prefix!N.
func lookupModel(model map[string]string, prefix string) (string, bool) {
	for k, v := range model {
		if i := strings.LastIndex(k, "!"); i > 0 && k[:i] == sanitize(prefix) {
			return v, true
		}
	}
	return "", false
}

func reifyFields(setup, post *[]string, res *replayResult, goName, modelName, srcName string, t types.Type, st *types.Struct, model map[string]string, qual types.Qualifier, pkg *types.Package) bool {
	for i := 0; i < st.NumFields(); i++ {
		f := st.Field(i)
		if !f.Exported() && f.Pkg() != pkg {
			continue
		}
		ft := f.Type()
		if nested, ok := ft.Underlying().(*types.Struct); ok {
			if !reifyFields(setup, post, res, goName+"."+f.Name(), modelName, srcName+"."+f.Name(), ft, nested, model, qual, pkg) {
				return false
			}
			continue
		}
		if !reifiableScalar(ft) {
			continue
		}
		key := srcName + "." + f.Name()
		*post = append(*post, fmt.Sprintf("post[%q] = %s.%s", key, goName, f.Name()))
		if mv, ok := model[key]; ok {
			if lit, ok2 := goLiteral(ft, mv, qual); ok2 {
				*setup = append(*setup, fmt.Sprintf("\t%s.%s = %s", goName, f.Name(), lit))
				res.Inputs = append(res.Inputs, key+" = "+lit)
			}
		}
	}
	return true
}

// evalEnsuresConcrete evaluates every ensures clause of the contract with the
// parameters fixed to the model values, the pre-state fields fixed to the
// model and the post-state fields / results fixed to what the real code did.
func (v *Verifier) evalEnsuresConcrete(u *Unit, model map[string]string, obs *replayObs) (bool, string) {
	fn := u.Fn
	v.resetTables()
	q := newQuery(v.u)
	e := &Enc{v: v, q: q, u: v.u, top: fn, oblCount: map[string]int{}, contract: u.Contract}
	pre := q.entryState()
	vars := map[string]Value{}
	var fixes []string
	post := pre.clone()
	for _, p := range fn.Params {
		val := e.freshValue(pre, "in_"+p.Name(), p.Type())
		vars[p.Name()] = val
		mv, ok := lookupModel(model, "in_"+p.Name())
		if !ok {
			continue
		}
		if pt, isPtr := p.Type().Underlying().(*types.Pointer); isPtr {
			if st, isStruct := pt.Elem().Underlying().(*types.Struct); isStruct {
				fixes = append(fixes, eq(val.term, mv))
				e.fixFields(pre, post, pt.Elem(), st, val.term, p.Name(), model, obs.Post, &fixes)
				continue
			}
		}
		fixes = append(fixes, eq(val.term, mv))
		if e.u.sortOf(p.Type()) == sortString {
			if s, ok := smtStringValue(mv); ok {
				fixes = append(fixes, concreteSplitFacts(v, s)...)
			}
		}
	}
	var results []Value
	for i := 0; i < fn.Signature.Results().Len(); i++ {
		rt := fn.Signature.Results().At(i).Type()
		rv := e.freshValue(post, fmt.Sprintf("res%d", i), rt)
		results = append(results, rv)
		if i < len(obs.Results) {
			if lit, ok := jsonToSMT(rt, obs.Results[i]); ok {
				fixes = append(fixes, eq(rv.term, lit))
			} else {
				return false, "result of type " + rt.String() + " is not observable"
			}
		}
	}
	env := &SpecEnv{e: e, pkg: fn.Pkg.Pkg, vars: vars, cur: post, old: pre, results: results, where: "replay"}
	dir, err := os.MkdirTemp("", "govc-eval-")
	if err != nil {
		return false, err.Error()
	}
	defer os.RemoveAll(dir)
	for _, c := range u.Contract.Ensures {
		term := e.evalClause(env, c)
		check := func(negate bool) string {
			var b strings.Builder
			b.WriteString("(set-logic ALL)\n")
			b.WriteString(v.prelude())
			for _, d := range q.decls {
				b.WriteString(d + "\n")
			}
			for _, f := range fixes {
				b.WriteString("(assert " + f + ")\n")
			}
			if negate {
				b.WriteString("(assert (not " + term + "))\n")
			} else {
				b.WriteString("(assert " + term + ")\n")
			}
			b.WriteString("(check-sat)\n")
			p := filepath.Join(dir, "eval.smt2")
			os.WriteFile(p, []byte(b.String()), 0o644)
			return runSolver(context.Background(), solvers[0], p, 10).Verdict
		}
		if check(false) == "unsat" && check(true) == "sat" {
			return true, fmt.Sprintf("clause [%s] %q is false for what the real code returned (results %s, post %v)", c.Label, c.Src, rawList(obs.Results), obs.Post)
		}
	}
	return false, "every ensures clause holds for what the real code returned on the model input"
}

func rawList(rs []json.RawMessage) string {
	var ss []string
	for _, r := range rs {
		ss = append(ss, string(r))
	}
	return "[" + strings.Join(ss, ", ") + "]"
}

func (e *Enc) fixFields(pre, post *State, t types.Type, st *types.Struct, ref, name string, model map[string]string, obsPost map[string]any, fixes *[]string) {
	for i := 0; i < st.NumFields(); i++ {
		ft := st.Field(i).Type()
		key := name + "." + st.Field(i).Name()
		if nested, ok := ft.Underlying().(*types.Struct); ok {
			e.fixFields(pre, post, ft, nested, e.fieldRef(pre, t, i, ref), key, model, obsPost, fixes)
			continue
		}
		if !reifiableScalar(ft) {
			continue
		}
		hk := e.fieldKey(t, i)
		if mv, ok := model[key]; ok {
			*fixes = append(*fixes, eq(sel(pre.get(hk), ref), mv))
		} else {
			*fixes = append(*fixes, eq(sel(pre.get(hk), ref), e.u.zero(ft)))
		}
		if ov, ok := obsPost[key]; ok {
			raw, _ := json.Marshal(ov)
			if lit, ok2 := jsonToSMT(ft, raw); ok2 {
				nv := e.q.fresh("post_"+key, e.u.sortOf(ft))
				post.set(hk, store(post.get(hk), ref, nv))
				*fixes = append(*fixes, eq(nv, lit))
			}
		}
	}
}

func jsonToSMT(t types.Type, raw json.RawMessage) (string, bool) {
	b, ok := t.Underlying().(*types.Basic)
	if !ok {
		return "", false
	}
	s := strings.TrimSpace(string(raw))
	switch {
	case b.Info()&types.IsBoolean != 0:
		return s, s == "true" || s == "false"
	case b.Info()&types.IsInteger != 0:
		if strings.HasPrefix(s, "-") {
			return "(- " + s[1:] + ")", true
		}
		if _, err := strconv.ParseUint(s, 10, 64); err == nil {
			return s, true
		}
	case b.Info()&types.IsString != 0:
		var str string
		if json.Unmarshal(raw, &str) == nil {
			return smtString(str), true
		}
	}
	return "", false
}

// concreteSplitFacts fixes the uninterpreted component functions on a
// concrete string (separator ".").
func concreteSplitFacts(v *Verifier, s string) []string {
	if _, ok := v.funDecls["ncomp"]; !ok {
		v.declFun("ncomp", "(String String) Int")
		v.declFun("comp", "(String String Int) String")
	}
	parts := strings.Split(s, ".")
	out := []string{fmt.Sprintf("(= (ncomp %s \".\") %d)", smtString(s), len(parts))}
	for i, p := range parts {
		out = append(out, fmt.Sprintf("(= (comp %s \".\" %d) %s)", smtString(s), i, smtString(p)))
	}
	return out
}

var _ = ssa.NaiveForm
