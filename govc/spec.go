package main

// Evaluation of contract expressions to SMT terms.

import (
	"os"
	"fmt"
	"sort"
	"go/constant"
	"go/types"
	"math/big"
	"strconv"
	"strings"
)

// setType is the spec-level type set[T].
type setType struct{ elem types.Type }

func (s *setType) Underlying() types.Type { return s }
func (s *setType) String() string         { return "set[" + s.elem.String() + "]" }

var mathInt = types.Typ[types.UntypedInt]

type SpecEnv struct {
	e       *Enc
	pkg     *types.Package
	vars    map[string]Value
	cur     *State
	old     *State
	results []Value
	iter    *iterInfo
	bound   []map[string]Value
	where   string
	depth   int
	errs    *[]string
	ambiguous map[string]bool
	// side facts: instances of declared field invariants for the fields a
	// clause reads (assumed, exactly as at loads in the code)
	side *[]string
}

func (env *SpecEnv) errorf(format string, args ...any) Value {
	msg := fmt.Sprintf(format, args...)
	panic(specError{env.where + ": " + msg})
}

type specError struct{ msg string }

func (env *SpecEnv) withState(cur *State) *SpecEnv {
	n := *env
	n.cur = cur
	return &n
}

func (env *SpecEnv) lookup(name string) (Value, bool) {
	for i := len(env.bound) - 1; i >= 0; i-- {
		if v, ok := env.bound[i][name]; ok {
			return v, true
		}
	}
	if v, ok := env.vars[name]; ok {
		return v, true
	}
	return Value{}, false
}

// evalBool evaluates a clause to a Bool term.
func (env *SpecEnv) evalBool(x *Expr) string {
	v := env.eval(x)
	if env.e.u.sortOf(v.typ) != sortBool {
		env.errorf("clause %s is not boolean (%s)", x, v.typ)
	}
	return v.term
}

func (env *SpecEnv) resolveType(text string) types.Type {
	text = strings.TrimSpace(text)
	switch {
	case strings.HasPrefix(text, "*"):
		return types.NewPointer(env.resolveType(text[1:]))
	case strings.HasPrefix(text, "[]"):
		return types.NewSlice(env.resolveType(text[2:]))
	case strings.HasPrefix(text, "set["):
		return &setType{elem: env.resolveType(text[4 : len(text)-1])}
	case strings.HasPrefix(text, "map["):
		depth := 0
		for i := 3; i < len(text); i++ {
			if text[i] == '[' {
				depth++
			} else if text[i] == ']' {
				depth--
				if depth == 0 {
					return types.NewMap(env.resolveType(text[4:i]), env.resolveType(text[i+1:]))
				}
			}
		}
	case strings.HasPrefix(text, "chan "):
		return types.NewChan(types.SendRecv, env.resolveType(text[5:]))
	case strings.HasPrefix(text, "<-chan "):
		return types.NewChan(types.RecvOnly, env.resolveType(text[7:]))
	case strings.HasPrefix(text, "chan<- "):
		return types.NewChan(types.SendOnly, env.resolveType(text[7:]))
	case strings.HasPrefix(text, "func("):
		// func(A, B) R   (at most one unnamed result)
		depth, end := 0, -1
		for i := 4; i < len(text); i++ {
			if text[i] == '(' {
				depth++
			} else if text[i] == ')' {
				depth--
				if depth == 0 {
					end = i
					break
				}
			}
		}
		if end < 0 {
			env.errorf("bad function type %s", text)
		}
		var params, results []*types.Var
		for _, p := range splitTop(text[5:end], ',') {
			if p = strings.TrimSpace(p); p != "" {
				params = append(params, types.NewVar(0, nil, "", env.resolveType(p)))
			}
		}
		if r := strings.TrimSpace(text[end+1:]); r != "" {
			results = append(results, types.NewVar(0, nil, "", env.resolveType(r)))
		}
		return types.NewSignatureType(nil, nil, nil, types.NewTuple(params...), types.NewTuple(results...), false)
	case text == "struct{}":
		return types.NewStruct(nil, nil)
	case text == "any":
		return types.Universe.Lookup("any").Type()
	case text == "mathint":
		return mathInt
	}
	if i := strings.Index(text, "."); i >= 0 {
		pn, tn := text[:i], text[i+1:]
		if p := env.findImport(pn); p != nil {
			if o := p.Scope().Lookup(tn); o != nil {
				if _, ok := o.(*types.TypeName); ok {
					return o.Type()
				}
			}
		}
		env.errorf("unknown type %s", text)
	}
	if o := env.pkg.Scope().Lookup(text); o != nil {
		if _, ok := o.(*types.TypeName); ok {
			return o.Type()
		}
	}
	if o := types.Universe.Lookup(text); o != nil {
		if _, ok := o.(*types.TypeName); ok {
			return o.Type()
		}
	}
	env.errorf("unknown type %s", text)
	return nil
}

func (env *SpecEnv) tryType(text string) (t types.Type, ok bool) {
	defer func() {
		if r := recover(); r != nil {
			if _, isSpec := r.(specError); isSpec {
				t, ok = nil, false
				return
			}
			panic(r)
		}
	}()
	return env.resolveType(text), true
}

func (env *SpecEnv) findImport(name string) *types.Package {
	if env.pkg.Name() == name {
		return env.pkg
	}
	for _, p := range env.pkg.Imports() {
		if p.Name() == name {
			return p
		}
	}
	// any loaded package with that name
	if p := env.e.v.pkgByName[name]; p != nil {
		return p
	}
	return nil
}

func isPkgIdent(env *SpecEnv, x *Expr) *types.Package {
	if x.Op != "ident" {
		return nil
	}
	if _, ok := env.lookup(x.Name); ok {
		return nil
	}
	if env.pkg.Scope().Lookup(x.Name) != nil {
		return nil
	}
	return env.findImport(x.Name)
}

func (env *SpecEnv) constObj(o types.Object) (Value, bool) {
	switch c := o.(type) {
	case *types.Const:
		t := c.Type()
		if b, ok := t.(*types.Basic); ok && b.Info()&types.IsUntyped != 0 {
			switch c.Val().Kind() {
			case constant.Int:
				t = mathInt
			case constant.String:
				t = types.Typ[types.String]
			case constant.Bool:
				t = types.Typ[types.Bool]
			}
		}
		return Value{term: env.e.u.constTerm(t, c.Val()), typ: t}, true
	}
	return Value{}, false
}

func (env *SpecEnv) eval(x *Expr) Value {
	e := env.e
	switch x.Op {
	case "lit-int":
		n := new(big.Int)
		if _, ok := n.SetString(x.Name, 0); !ok {
			env.errorf("bad integer %s", x.Name)
		}
		return Value{term: smtBig(n), typ: mathInt}
	case "lit-str":
		s, err := strconv.Unquote(x.Name)
		if err != nil {
			env.errorf("bad string %s", x.Name)
		}
		return Value{term: smtString(s), typ: types.Typ[types.String]}
	case "lit-char":
		s, err := strconv.Unquote(x.Name)
		if err != nil || len(s) == 0 {
			env.errorf("bad char %s", x.Name)
		}
		return Value{term: fmt.Sprint(int([]rune(s)[0])), typ: mathInt}
	case "ident":
		return env.evalIdent(x)
	case "sel":
		return env.evalSel(x)
	case "index":
		return env.evalIndex(x)
	case "unary":
		a := env.eval(x.Args[0])
		switch x.Name {
		case "!":
			return Value{term: not(a.term), typ: types.Typ[types.Bool]}
		case "-":
			return Value{term: "(- " + a.term + ")", typ: mathInt}
		case "*":
			return env.deref(a)
		}
	case "binary":
		return env.evalBinary(x)
	case "cond":
		c := env.eval(x.Args[0])
		a := env.eval(x.Args[1])
		b := env.eval(x.Args[2])
		a, b = env.unify(a, b)
		return Value{term: ite(c.term, a.term, b.term), typ: a.typ}
	case "forall", "exists":
		return env.evalQuant(x)
	case "typeassert":
		a := env.eval(x.Args[0])
		t := env.resolveType(x.Type)
		if e.u.sortOf(a.typ) != sortIface {
			env.errorf("type assertion on non-interface %s", x.Args[0])
		}
		return Value{term: e.u.unbox(t, "(ival "+a.term+")"), typ: t}
	case "call":
		return env.evalCall(x)
	}
	return env.errorf("cannot evaluate %s", x)
}

func (env *SpecEnv) evalIdent(x *Expr) Value {
	e := env.e
	switch x.Name {
	case "true":
		return Value{term: "true", typ: types.Typ[types.Bool]}
	case "false":
		return Value{term: "false", typ: types.Typ[types.Bool]}
	case "nil":
		return Value{term: "NIL", typ: types.Typ[types.UntypedNil]}
	case "result":
		if len(env.results) == 0 {
			env.errorf("no result here")
		}
		return env.results[0]
	}
	if strings.HasPrefix(x.Name, "result") {
		if n, err := strconv.Atoi(x.Name[6:]); err == nil {
			if n >= len(env.results) {
				env.errorf("no %s", x.Name)
			}
			return env.results[n]
		}
	}
	if v, ok := env.lookup(x.Name); ok {
		return v
	}
	if o := env.pkg.Scope().Lookup(x.Name); o != nil {
		if v, ok := env.constObj(o); ok {
			return v
		}
		if g, ok := o.(*types.Var); ok {
			// package-level variable: value stored in a global cell
			return env.globalVar(g)
		}
	}
	_ = e
	if env.ambiguous[x.Name] {
		return env.errorf("variable %s has several reaching definitions here and cannot be used in a contract clause", x.Name)
	}
	return env.errorf("unknown identifier %s", x.Name)
}

func (env *SpecEnv) globalVar(g *types.Var) Value {
	e := env.e
	name := "glob_" + sanitize(g.Pkg().Path()+"."+g.Name())
	e.v.declFun(name, "() Int")
	e.v.globalRefs[name] = true
	p := Value{term: name, typ: types.NewPointer(g.Type())}
	return env.derefIn(env.cur, p)
}

func (env *SpecEnv) deref(p Value) Value { return env.derefIn(env.cur, p) }

func (env *SpecEnv) derefIn(st *State, p Value) Value {
	if _, ok := p.typ.Underlying().(*types.Pointer); !ok {
		env.errorf("dereference of non-pointer %s", p.typ)
	}
	return env.e.loadPtr(st, p, 0)
}

func (env *SpecEnv) evalSel(x *Expr) Value {
	e := env.e
	if p := isPkgIdent(env, x.Args[0]); p != nil {
		o := p.Scope().Lookup(x.Name)
		if o == nil {
			env.errorf("unknown %s.%s", p.Name(), x.Name)
		}
		if v, ok := env.constObj(o); ok {
			return v
		}
		if g, ok := o.(*types.Var); ok {
			return env.globalVar(g)
		}
		env.errorf("%s.%s is not a constant or variable", p.Name(), x.Name)
	}
	base := env.eval(x.Args[0])
	obj, path, _ := types.LookupFieldOrMethod(base.typ, true, env.pkgOf(base.typ), x.Name)
	fld, ok := obj.(*types.Var)
	if !ok || !fld.IsField() {
		env.errorf("no field %s in %s", x.Name, base.typ)
	}
	cur := base
	for _, idx := range path {
		cur = env.fieldOf(cur, idx)
	}
	_ = e
	return cur
}

func (env *SpecEnv) pkgOf(t types.Type) *types.Package {
	if p, ok := t.Underlying().(*types.Pointer); ok {
		t = p.Elem()
	}
	if n, ok := types.Unalias(t).(*types.Named); ok && n.Obj().Pkg() != nil {
		return n.Obj().Pkg()
	}
	return env.pkg
}

// fieldOf selects field idx of a struct value or pointer-to-struct.
func (env *SpecEnv) fieldOf(base Value, idx int) Value {
	e := env.e
	if pt, ok := base.typ.Underlying().(*types.Pointer); ok {
		st := pt.Elem().Underlying().(*types.Struct)
		ft := st.Field(idx).Type()
		if _, isStruct := ft.Underlying().(*types.Struct); isStruct {
			return Value{term: e.fieldRef(env.cur, pt.Elem(), idx, base.term), typ: types.NewPointer(ft), embedded: true}
		}
		if base.addr != nil {
			a := *base.addr
			a.path = append(append([]pathStep{}, a.path...), pathStep{ss: e.u.structSortOf(pt.Elem()), field: idx})
			return Value{term: e.loadAddr(env.cur, &a), typ: ft}
		}
		key := e.fieldKey(pt.Elem(), idx)
		t := sel(env.cur.get(key), base.term)
		if e.v.sliceNormKeys[key] {
			e.q.markOff0(t)
		}
		if env.side != nil && env.cur.probe == nil && !strings.Contains(base.term, "?") && os.Getenv("GOVC_NOSIDE") == "" {
			if fi := e.v.fieldInvs[key]; fi != nil {
				it, _ := e.fieldInvTerm(env.cur, key, Value{term: t, typ: ft})
				*env.side = append(*env.side, implies("(not (= "+base.term+" 0))", it))
			}
		}
		return Value{term: t, typ: ft}
	}
	st, ok := base.typ.Underlying().(*types.Struct)
	if !ok {
		env.errorf("field selection on %s", base.typ)
	}
	ss := e.u.structSortOf(base.typ)
	return Value{term: "(" + ss.fields[idx] + " " + base.term + ")", typ: st.Field(idx).Type()}
}

func (env *SpecEnv) evalIndex(x *Expr) Value {
	e := env.e
	a := env.eval(x.Args[0])
	i := env.eval(x.Args[1])
	switch t := a.typ.Underlying().(type) {
	case *types.Map:
		dom, val, _ := e.mapKeys(a.typ)
		i = env.coerce(i, t.Key())
		// In contract expressions m[k] is the stored value; it is meaningful
		// only where k in m holds (no zero-value default), which keeps
		// quantified invariants free of if-then-else terms.
		_ = dom
		v := sel(sel(env.cur.get(val), a.term), i.term)
		return Value{term: v, typ: t.Elem()}
	case *types.Slice:
		ek := e.elemKey(t.Elem())
		return Value{term: sel(sel(env.cur.get(ek), "(s_arr "+a.term+")"), e.q.idxOf(a.term, i.term)), typ: t.Elem()}
	case *types.Basic:
		if t.Info()&types.IsString != 0 {
			return Value{term: "(str.to_code (str.at " + a.term + " " + i.term + "))", typ: mathInt}
		}
	case *types.Array:
		return Value{term: sel(a.term, i.term), typ: t.Elem()}
	case *setType:
		i = env.coerce(i, t.elem)
		return Value{term: sel(a.term, i.term), typ: types.Typ[types.Bool]}
	case *types.Pointer:
		if at, ok := t.Elem().Underlying().(*types.Array); ok {
			ek := e.elemKey(at.Elem())
			return Value{term: sel(sel(env.cur.get(ek), a.term), i.term), typ: at.Elem()}
		}
	}
	return env.errorf("cannot index %s", a.typ)
}

// coerce adapts untyped constants / nil to the wanted type.
func (env *SpecEnv) coerce(v Value, want types.Type) Value {
	if v.term == "NIL" {
		return Value{term: env.e.u.zero(want), typ: want}
	}
	if v.embedded {
		if _, isStruct := want.Underlying().(*types.Struct); isStruct {
			return env.valueOfEmbedded(v)
		}
	}
	return v
}

// valueOfEmbedded loads the struct value an embedded-field reference designates.
func (env *SpecEnv) valueOfEmbedded(v Value) Value {
	if v.embedded {
		return env.derefIn(env.cur, Value{term: v.term, typ: v.typ})
	}
	return v
}

func (env *SpecEnv) unify(a, b Value) (Value, Value) {
	a, b = env.valueOfEmbedded(a), env.valueOfEmbedded(b)
	if a.term == "NIL" && b.term == "NIL" {
		env.errorf("nil compared with nil")
	}
	if a.term == "NIL" {
		a = env.coerce(a, b.typ)
	}
	if b.term == "NIL" {
		b = env.coerce(b, a.typ)
	}
	sa, sb := env.e.u.sortOf(a.typ), env.e.u.sortOf(b.typ)
	if _, ok := a.typ.(*setType); ok {
		sa = "set"
	}
	if _, ok := b.typ.(*setType); ok {
		sb = "set"
	}
	if sa != sb {
		// allow comparing interface with concrete by boxing
		if sa == sortIface && sb != sortIface && sb != "set" {
			b = Value{term: env.e.u.mkIface(env.concreteType(b.typ), b.term), typ: a.typ}
		} else if sb == sortIface && sa != sortIface && sa != "set" {
			a = Value{term: env.e.u.mkIface(env.concreteType(a.typ), a.term), typ: b.typ}
		} else {
			env.errorf("sort mismatch: %s (%s) vs %s (%s)", a.typ, sa, b.typ, sb)
		}
	}
	return a, b
}

func (env *SpecEnv) concreteType(t types.Type) types.Type {
	if t == mathInt {
		return types.Typ[types.Int]
	}
	return t
}

func (env *SpecEnv) evalBinary(x *Expr) Value {
	boolT := types.Typ[types.Bool]
	switch x.Name {
	case "&&", "||", "==>", "<==>":
		a := env.evalBool(x.Args[0])
		b := env.evalBool(x.Args[1])
		switch x.Name {
		case "&&":
			return Value{term: and(a, b), typ: boolT}
		case "||":
			return Value{term: or(a, b), typ: boolT}
		case "==>":
			return Value{term: implies(a, b), typ: boolT}
		default:
			return Value{term: "(= " + a + " " + b + ")", typ: boolT}
		}
	case "in":
		k := env.eval(x.Args[0])
		m := env.eval(x.Args[1])
		switch t := m.typ.Underlying().(type) {
		case *types.Map:
			dom, _, _ := env.e.mapKeys(m.typ)
			k = env.coerce(k, t.Key())
			return Value{term: and("(not (= "+m.term+" 0))", sel(sel(env.cur.get(dom), m.term), k.term)), typ: boolT}
		case *setType:
			k = env.coerce(k, t.elem)
			return Value{term: sel(m.term, k.term), typ: boolT}
		case *types.Slice:
			// membership in a slice: exists index
			ek := env.e.elemKey(t.Elem())
			k = env.coerce(k, t.Elem())
			iv := env.e.q.freshBound("i")
			body := fmt.Sprintf("(exists ((%[1]s Int)) (and (<= 0 %[1]s) (< %[1]s (s_len %[2]s)) (= (select (select %[3]s (s_arr %[2]s)) %[5]s) %[4]s)))", iv, m.term, env.cur.get(ek), k.term, env.e.q.idxOf(m.term, iv))
			return Value{term: body, typ: boolT}
		}
		env.errorf("'in' needs a map, set or slice, got %s", m.typ)
	}
	a := env.eval(x.Args[0])
	b := env.eval(x.Args[1])
	switch x.Name {
	case "==", "!=":
		a, b = env.unify(a, b)
		c := eq(a.term, b.term)
		if x.Name == "!=" {
			c = not(c)
		}
		return Value{term: c, typ: boolT}
	case "<", "<=", ">", ">=":
		a, b = env.unify(a, b)
		switch env.e.u.sortOf(a.typ) {
		case sortInt:
			return Value{term: "(" + x.Name + " " + a.term + " " + b.term + ")", typ: boolT}
		case sortString:
			switch x.Name {
			case "<":
				return Value{term: "(str.< " + a.term + " " + b.term + ")", typ: boolT}
			case "<=":
				return Value{term: "(str.<= " + a.term + " " + b.term + ")", typ: boolT}
			case ">":
				return Value{term: "(str.< " + b.term + " " + a.term + ")", typ: boolT}
			default:
				return Value{term: "(str.<= " + b.term + " " + a.term + ")", typ: boolT}
			}
		}
		env.errorf("ordering on %s", a.typ)
	case "+":
		if env.e.u.sortOf(a.typ) == sortString {
			return Value{term: "(str.++ " + a.term + " " + b.term + ")", typ: a.typ}
		}
		return Value{term: "(+ " + a.term + " " + b.term + ")", typ: mathInt}
	case "-":
		return Value{term: "(- " + a.term + " " + b.term + ")", typ: mathInt}
	case "*":
		return Value{term: "(* " + a.term + " " + b.term + ")", typ: mathInt}
	case "/":
		return Value{term: "(div " + a.term + " " + b.term + ")", typ: mathInt}
	case "%":
		return Value{term: "(mod " + a.term + " " + b.term + ")", typ: mathInt}
	}
	return env.errorf("operator %s", x.Name)
}

func (q *Query) freshBound(prefix string) string {
	q.n++
	return fmt.Sprintf("|%s?%d|", prefix, q.n)
}

func (env *SpecEnv) evalQuant(x *Expr) Value {
	e := env.e
	scope := map[string]Value{}
	var binders []string
	var guards []string
	for _, v := range x.Vars {
		t := env.resolveType(v.Type)
		name := e.q.freshBound(v.Name)
		so := e.u.sortOf(t)
		if t == mathInt {
			so = sortInt
		}
		if _, isSet := t.(*setType); isSet {
			env.errorf("quantification over sets unsupported")
		}
		binders = append(binders, "("+name+" "+so+")")
		scope[v.Name] = Value{term: name, typ: t}
		// no range guard: quantified integers range over all mathematical
		// integers (heap cells are only known to be in range once loaded)
	}
	n := *env
	n.bound = append(append([]map[string]Value{}, env.bound...), scope)
	body := n.evalBool(x.Args[0])
	g := and(guards...)
	if x.Op == "forall" {
		return Value{term: "(forall (" + strings.Join(binders, " ") + ") " + implies(g, body) + ")", typ: types.Typ[types.Bool]}
	}
	return Value{term: "(exists (" + strings.Join(binders, " ") + ") " + and(g, body) + ")", typ: types.Typ[types.Bool]}
}

func exprToTypeText(x *Expr) string {
	switch x.Op {
	case "ident":
		return x.Name
	case "sel":
		return exprToTypeText(x.Args[0]) + "." + x.Name
	case "unary":
		if x.Name == "*" {
			return "*" + exprToTypeText(x.Args[0])
		}
	}
	return x.String()
}

func (env *SpecEnv) evalCall(x *Expr) Value {
	e := env.e
	boolT := types.Typ[types.Bool]
	argc := func(n int) {
		if len(x.Args) != n {
			env.errorf("%s expects %d arguments", x.Name, n)
		}
	}
	switch x.Name {
	case "old":
		argc(1)
		if env.old == nil {
			env.errorf("old() not available here")
		}
		return env.withState(env.old).eval(x.Args[0])
	case "len":
		argc(1)
		a := env.eval(x.Args[0])
		switch a.typ.Underlying().(type) {
		case *types.Slice:
			return Value{term: "(s_len " + a.term + ")", typ: mathInt}
		case *types.Map:
			_, _, ln := e.mapKeys(a.typ)
			return Value{term: ite("(= "+a.term+" 0)", "0", sel(env.cur.get(ln), a.term)), typ: mathInt}
		case *types.Basic:
			return Value{term: "(str.len " + a.term + ")", typ: mathInt}
		case *types.Array:
			return Value{term: fmt.Sprint(a.typ.Underlying().(*types.Array).Len()), typ: mathInt}
		}
		env.errorf("len of %s", a.typ)
	case "pow2":
		argc(1)
		a := env.eval(x.Args[0])
		e.v.needPow2()
		return Value{term: "(pow2 " + a.term + ")", typ: mathInt}
	case "lastresult":
		// lastresult(Callee): the result of this function's most recent call of Callee
		// (declared with a 'lastresult Callee [resultN]' line); arbitrary before the first call
		argc(1)
		if x.Args[0].Op != "ident" {
			env.errorf("lastresult() needs a callee name")
		}
		t, ok := e.lastResTypes[x.Args[0].Name]
		if !ok {
			env.errorf("lastresult(%s): no call of %s seen in this function (or no 'lastresult' declaration)", x.Args[0].Name, x.Args[0].Name)
		}
		return Value{term: e.ghostGet(env.cur, lastResultKey(x.Args[0].Name, e.u.sortOf(t))), typ: t}
	case "selected":
		// selected(ch): the most recent select of this function completed by receiving from ch
		argc(1)
		c := env.eval(x.Args[0])
		return Value{term: "(= " + e.ghostGet(env.cur, ghostLastSel) + " " + c.term + ")", typ: boolT}
	case "alternative":
		// alternative(ch): in a send-site clause, the send is one case of a
		// select that also receives from ch (or has a default case): it cannot
		// block once ch is closed. False for a plain send.
		argc(1)
		c := env.eval(x.Args[0])
		if !e.selActive {
			return Value{term: "false", typ: boolT}
		}
		if e.selNonBlocking {
			return Value{term: "true", typ: boolT}
		}
		var alts []string
		for _, a := range e.selAlts {
			alts = append(alts, "(= "+a+" "+c.term+")")
		}
		if len(alts) == 0 {
			return Value{term: "false", typ: boolT}
		}
		if len(alts) == 1 {
			return Value{term: alts[0], typ: boolT}
		}
		return Value{term: "(or " + strings.Join(alts, " ") + ")", typ: boolT}
	case "cancels":
		// cancels(f, ctx): calling the cancel function f cancels the context ctx
		// (f was returned with ctx, or with an ancestor of ctx, by the context package)
		argc(2)
		f := env.eval(x.Args[0])
		c := env.eval(x.Args[1])
		if e.u.sortOf(c.typ) != sortIface || e.u.sortOf(f.typ) != sortInt {
			env.errorf("cancels needs a cancel function and a context")
		}
		e.v.declFun("ctx_cancels", "(Int Iface) Bool")
		return Value{term: "(ctx_cancels " + f.term + " " + c.term + ")", typ: boolT}
	case "chancap":
		// chancap(ch): the capacity the channel was made with
		argc(1)
		a := env.eval(x.Args[0])
		e.v.declFun("chancap", "(Int) Int")
		return Value{term: "(chancap " + a.term + ")", typ: mathInt}
	case "stringOf":
		// stringOf(b): the string conversion of the byte slice b (in the current state)
		argc(1)
		a := env.eval(x.Args[0])
		if _, ok := a.typ.Underlying().(*types.Slice); !ok {
			env.errorf("stringOf needs a byte slice")
		}
		return Value{term: e.bytesToString(env.cur, a), typ: types.Typ[types.String]}
	case "backing":
		// backing(s): identity of the slice's backing array
		argc(1)
		a := env.eval(x.Args[0])
		return Value{term: "(s_arr " + a.term + ")", typ: mathInt}
	case "cap":
		argc(1)
		a := env.eval(x.Args[0])
		return Value{term: "(s_cap " + a.term + ")", typ: mathInt}
	case "visited":
		argc(1)
		if env.iter == nil {
			env.errorf("visited() outside a range-loop invariant")
		}
		k := env.eval(x.Args[0])
		return Value{term: sel(env.cur.ghost[env.iter.ghost], k.term), typ: boolT}
	case "unchanged":
		argc(1)
		a := env.eval(x.Args[0])
		b := env.withState(env.old).eval(x.Args[0])
		return Value{term: eq(a.term, b.term), typ: boolT}
	case "fresh":
		argc(1)
		a := env.eval(x.Args[0])
		if env.old == nil {
			env.errorf("fresh() needs an old state")
		}
		return Value{term: "(and (<= " + env.old.ap + " " + a.term + ") (< " + a.term + " " + env.cur.ap + "))", typ: boolT}
	case "allocLimit":
		argc(0)
		return Value{term: env.cur.ap, typ: mathInt}
	case "allocated":
		argc(1)
		a := env.eval(x.Args[0])
		return Value{term: "(and (< 0 " + a.term + ") (< " + a.term + " " + env.cur.ap + "))", typ: boolT}
	case "hasPrefix":
		argc(2)
		s, p := env.eval(x.Args[0]), env.eval(x.Args[1])
		return Value{term: "(str.prefixof " + p.term + " " + s.term + ")", typ: boolT}
	case "hasSuffix":
		argc(2)
		s, p := env.eval(x.Args[0]), env.eval(x.Args[1])
		return Value{term: "(str.suffixof " + p.term + " " + s.term + ")", typ: boolT}
	case "contains":
		argc(2)
		s, p := env.eval(x.Args[0]), env.eval(x.Args[1])
		return Value{term: "(str.contains " + s.term + " " + p.term + ")", typ: boolT}
	case "ncomp":
		argc(2)
		s, sep := env.eval(x.Args[0]), env.eval(x.Args[1])
		e.v.declFun("ncomp", "(String String) Int")
		return Value{term: "(ncomp " + s.term + " " + sep.term + ")", typ: mathInt}
	case "comp":
		argc(3)
		s, sep, i := env.eval(x.Args[0]), env.eval(x.Args[1]), env.eval(x.Args[2])
		e.v.declFun("comp", "(String String Int) String")
		return Value{term: "(comp " + s.term + " " + sep.term + " " + i.term + ")", typ: types.Typ[types.String]}
	case "inre":
		// inre(s, "regexp-name"): membership in a named reference language
		argc(2)
		s := env.eval(x.Args[0])
		if x.Args[1].Op != "lit-str" {
			env.errorf("inre needs a literal language name")
		}
		name, _ := strconv.Unquote(x.Args[1].Name)
		re, ok := e.v.refLangs[name]
		if !ok {
			env.errorf("unknown reference language %s", name)
		}
		return Value{term: "(str.in_re " + s.term + " " + re + ")", typ: boolT}
	case "is":
		argc(2)
		a := env.eval(x.Args[0])
		t := env.resolveType(exprToTypeText(x.Args[1]))
		if _, isIface := t.Underlying().(*types.Interface); isIface {
			return Value{term: e.implementsTerm(env.cur, a.term, t), typ: boolT}
		}
		return Value{term: fmt.Sprintf("(= (itag %s) %d)", a.term, e.u.tagOf(t)), typ: boolT}
	case "wellformed":
		// wellformed(x): an interface value that is not nil and does not hold a nil pointer
		argc(1)
		a := env.eval(x.Args[0])
		if e.u.sortOf(a.typ) != sortIface {
			env.errorf("wellformed needs an interface value")
		}
		return Value{term: "(and (not (= (itag " + a.term + ") 0)) (=> ((_ is VRef) (ival " + a.term + ")) (not (= (vref (ival " + a.term + ")) 0))))", typ: boolT}
	case "isnil":
		argc(1)
		a := env.eval(x.Args[0])
		return Value{term: eq(a.term, e.u.zero(a.typ)), typ: boolT}
	case "min", "max":
		argc(2)
		a, b := env.eval(x.Args[0]), env.eval(x.Args[1])
		op := "<="
		if x.Name == "max" {
			op = ">="
		}
		return Value{term: "(ite (" + op + " " + a.term + " " + b.term + ") " + a.term + " " + b.term + ")", typ: mathInt}
	case "dom":
		argc(1)
		m := env.eval(x.Args[0])
		mt, ok := m.typ.Underlying().(*types.Map)
		if !ok {
			env.errorf("dom of %s", m.typ)
		}
		dom, _, _ := e.mapKeys(m.typ)
		return Value{term: sel(env.cur.get(dom), m.term), typ: &setType{elem: mt.Key()}}
	case "box":
		// box(v): the interface value holding v
		argc(1)
		a := env.eval(x.Args[0])
		if e.u.sortOf(a.typ) == sortIface {
			// already an interface value: boxing is the identity
			return Value{term: a.term, typ: types.Universe.Lookup("any").Type()}
		}
		return Value{term: e.u.mkIface(env.concreteType(a.typ), a.term), typ: types.Universe.Lookup("any").Type()}
	case "sendcount":
		argc(1)
		ch := env.eval(x.Args[0])
		return Value{term: sel(e.ghostGet(env.cur, ghostSendCount), ch.term), typ: mathInt}
	case "recvcount":
		// recvcount(ch): receives completed on ch by this function so far
		argc(1)
		ch := env.eval(x.Args[0])
		return Value{term: sel(e.ghostGet(env.cur, ghostRecvCount), ch.term), typ: mathInt}
	case "closed":
		argc(1)
		ch := env.eval(x.Args[0])
		return Value{term: sel(e.ghostGet(env.cur, ghostClosed), ch.term), typ: boolT}
	case "calls":
		// calls(callee, x): ghost number of calls of callee with the counted argument equal to x
		argc(2)
		if x.Args[0].Op != "ident" {
			env.errorf("calls() needs a callee name")
		}
		a := env.eval(x.Args[1])
		k := CallCount{Callee: x.Args[0].Name, Iface: e.u.sortOf(a.typ) == sortIface}.key()
		return Value{term: sel(e.ghostGet(env.cur, k), a.term), typ: mathInt}
	case "dqlen", "dqat":
		// dqlen(p), dqat(p, i): the sequence held by the deque at pointer p
		if len(x.Args) < 1 {
			env.errorf("%s needs a deque pointer", x.Name)
		}
		pv := env.eval(x.Args[0])
		pt, ok := pv.typ.Underlying().(*types.Pointer)
		if !ok {
			env.errorf("%s needs a pointer to a deque", x.Name)
		}
		var et types.Type
		if n, ok := types.Unalias(pt.Elem()).(*types.Named); ok && n.TypeArgs().Len() == 1 {
			et = n.TypeArgs().At(0)
		} else {
			env.errorf("%s: not a deque", x.Name)
		}
		lk, ek := "DQL", "DQE:"+shortTypeName(et)
		if _, ok := e.q.keySort(lk); !ok {
			e.q.declareHeap(lk, "(Array Int Int)")
		}
		if _, ok := e.q.keySort(ek); !ok {
			e.q.declareHeap(ek, "(Array Int (Array Int "+e.u.sortOf(et)+"))")
		}
		if x.Name == "dqlen" {
			return Value{term: sel(env.cur.get(lk), pv.term), typ: mathInt}
		}
		argc(2)
		iv := env.eval(x.Args[1])
		return Value{term: sel(sel(env.cur.get(ek), pv.term), iv.term), typ: et}
	case "method":
		// method(x, "Name"): uninterpreted result of a pure interface method
		argc(2)
		a := env.eval(x.Args[0])
		name, _ := strconv.Unquote(x.Args[1].Name)
		return e.pureMethodTerm(env, a, name)
	}
	// spec function / predicate
	if sf, ok := e.v.db.Specs[x.Name]; ok {
		return env.callSpec(sf, x)
	}
	// struct construction T(f0, f1, ...)
	if t, ok := env.tryType(x.Name); ok {
		if st, isStruct := t.Underlying().(*types.Struct); isStruct && len(x.Args) == st.NumFields() && st.NumFields() > 0 {
			ss := e.u.structSortOf(t)
			args := make([]string, len(x.Args))
			for i, a := range x.Args {
				v := env.coerce(env.eval(a), st.Field(i).Type())
				args[i] = v.term
			}
			return Value{term: app("mk_"+ss.name, args...), typ: t}
		}
	}
	// conversion T(x)
	if t, ok := env.tryType(x.Name); ok && len(x.Args) == 1 {
		a := env.eval(x.Args[0])
		a = env.coerce(a, t)
		if e.u.sortOf(t) != e.u.sortOf(a.typ) && !(a.typ == mathInt && e.u.sortOf(t) == sortInt) {
			env.errorf("conversion %s(%s) changes sort", x.Name, a.typ)
		}
		return Value{term: a.term, typ: t}
	}
	return env.errorf("unknown function %s", x.Name)
}

func (env *SpecEnv) callSpec(sf *SpecFunc, x *Expr) Value {
	e := env.e
	if len(x.Args) != len(sf.Params) {
		env.errorf("%s expects %d arguments", sf.Name, len(sf.Params))
	}
	if env.depth > 12 {
		env.errorf("spec expansion too deep at %s", sf.Name)
	}
	args := make([]Value, len(x.Args))
	for i, a := range x.Args {
		args[i] = env.eval(a)
	}
	// environment for the callee's own package
	senv := *env
	if p := e.v.pkgByPath[sf.Pkg]; p != nil {
		senv.pkg = p
	}
	if sf.Opaque {
		return env.callOpaque(sf, &senv, args)
	}
	if sf.Macro {
		scope := map[string]Value{}
		for i, p := range sf.Params {
			t := senv.resolveType(p.Type)
			scope[p.Name] = Value{term: env.coerce(args[i], t).term, typ: t}
		}
		n := senv
		n.vars = scope
		n.bound = nil
		n.depth = env.depth + 1
		n.where = env.where + ">" + sf.Name
		return n.eval(sf.Body)
	}
	// pure SMT function
	e.v.needSpecFun(sf, &senv)
	terms := make([]string, len(args))
	for i, a := range args {
		t := senv.resolveType(sf.Params[i].Type)
		terms[i] = env.coerce(a, t).term
	}
	rt := senv.resolveType(sf.Result)
	return Value{term: app("spec_"+sf.Name, terms...), typ: rt}
}

type opaqueDef struct {
	keys []string
	name string
}

// callOpaque: the predicate is an uninterpreted symbol over the heap arrays
// its body reads plus its parameters; one triggered axiom defines it.
func (env *SpecEnv) callOpaque(sf *SpecFunc, senv *SpecEnv, args []Value) Value {
	e := env.e
	def, ok := e.v.opaqueDefs[sf.Name]
	if !ok {
		probe := &State{q: e.q, reach: "true", heap: map[string]string{}, ghost: map[string]string{}, deferFlags: map[int]string{}, probe: map[string]bool{}, ap: "AP_UNAVAILABLE"}
		scope := map[string]Value{}
		var formals []string
		var fsorts []string
		for _, p := range sf.Params {
			t := senv.resolveType(p.Type)
			name := "p_" + sanitize(p.Name)
			scope[p.Name] = Value{term: name, typ: t}
			formals = append(formals, name)
			fsorts = append(fsorts, e.u.sortOf(t))
		}
		n := *senv
		n.vars = scope
		n.bound = nil
		n.cur = probe
		n.old = nil
		n.depth = env.depth + 1
		n.where = "opaque pred " + sf.Name
		body := n.evalBool(sf.Body)
		if strings.Contains(body, "AP_UNAVAILABLE") {
			env.errorf("opaque predicate %s must not use allocated()/fresh()", sf.Name)
		}
		var keys []string
		for k := range probe.probe {
			keys = append(keys, k)
		}
		sort.Strings(keys)
		def = &opaqueDef{keys: keys, name: "op_" + sf.Name}
		var binders, bsorts, actuals []string
		for _, k := range keys {
			so, _ := e.q.keySort(k)
			binders = append(binders, "(H_"+sanitize(k)+" "+so+")")
			bsorts = append(bsorts, so)
			actuals = append(actuals, "H_"+sanitize(k))
		}
		for i, f := range formals {
			binders = append(binders, "("+f+" "+fsorts[i]+")")
			bsorts = append(bsorts, fsorts[i])
			actuals = append(actuals, f)
		}
		appT := app(def.name, actuals...)
		e.v.specDefs = append(e.v.specDefs,
			fmt.Sprintf("(declare-fun %s (%s) Bool)", def.name, strings.Join(bsorts, " ")),
			fmt.Sprintf("(assert (forall (%s) (! (= %s %s) :pattern (%s))))", strings.Join(binders, " "), appT, body, appT))
		e.v.opaqueDefs[sf.Name] = def
	}
	var actuals []string
	for _, k := range def.keys {
		e.q.keySort(k)
		actuals = append(actuals, env.cur.get(k))
	}
	for i, a := range args {
		t := senv.resolveType(sf.Params[i].Type)
		actuals = append(actuals, env.coerce(a, t).term)
	}
	return Value{term: app(def.name, actuals...), typ: types.Typ[types.Bool]}
}
