package main

// Trusted models of external functions (assumed contracts, listed in the
// evidence of every check that uses them) and the regexp -> RegLan translation.

import (
	"fmt"
	"go/constant"
	"go/token"
	"go/types"
	"regexp/syntax"
	"strings"
	"unicode"

	"golang.org/x/tools/go/ssa"
)

type modelFn func(e *Enc, fr *frame, st *State, args []Value, prefix string, rt types.Type) Value
type ifaceModelFn func(e *Enc, fr *frame, st *State, recv Value, args []Value, prefix string, rt types.Type) Value

var trustedModels map[string]modelFn

// genericModels are matched by the prefix of the instantiated function's
// name (e.g. "maps.Copy[").
var genericModels = map[string]modelFn{}

func lookupModel2(key string) (modelFn, string, bool) {
	if m, ok := trustedModels[key]; ok {
		return m, key, true
	}
	if i := strings.Index(key, "["); i > 0 {
		if m, ok := genericModels[key[:i+1]]; ok {
			return m, key[:i+1] + "...]", true
		}
	}
	return nil, "", false
}
var trustedIfaceModels = map[string]ifaceModelFn{}
var trustedModelWrites = map[string]func(e *Enc, c *ssa.CallCommon) []string{}

// curCall lets models inspect the SSA operands of the call being modelled.
var curCall *ssa.CallCommon

func init() {
	boolT := types.Typ[types.Bool]
	// context.Context.Done(): the same channel on every call (documented:
	// "successive calls to Done return the same value"), no side effect
	trustedIfaceModels["context.Context.Done"] = func(e *Enc, fr *frame, st *State, recv Value, args []Value, prefix string, rt types.Type) Value {
		fn := "pm_" + sanitize("context.Context.Done")
		e.v.declFun(fn, "("+e.u.sortOf(recv.typ)+") "+e.u.sortOf(rt))
		r := e.q.define(prefix, e.u.sortOf(rt), "("+fn+" "+recv.term+")")
		st.assume("(<= 0 " + r + ")")
		return Value{term: r, typ: rt}
	}
	trustedModelWrites["io.ReadFull"] = func(e *Enc, c *ssa.CallCommon) []string {
		return []string{e.elemKey(types.Typ[types.Uint8])}
	}
	genericModels["maps.Copy["] = func(e *Enc, fr *frame, st *State, a []Value, p string, rt types.Type) Value {
		dst, src := a[0], a[1]
		dom, val, ln := e.mapKeys(dst.typ)
		sdom, sval, _ := e.mapKeys(src.typ)
		mt := dst.typ.Underlying().(*types.Map)
		ks, vs := e.u.sortOf(mt.Key()), e.u.sortOf(mt.Elem())
		// copying from a non-empty source into the nil map panics
		k0 := e.q.freshBound("k")
		e.oblige(st, "nopanic", "nil-map-store (maps.Copy)", fmt.Sprintf("(or (not (= %s 0)) (= %s 0) (forall ((%s %s)) (not (select (select %s %s) %s))))", dst.term, src.term, k0, ks, st.get(sdom), src.term, k0), 0)
		nd := e.q.fresh(p+"_dom", "(Array "+ks+" Bool)")
		nv := e.q.fresh(p+"_val", "(Array "+ks+" "+vs+")")
		nl := e.q.fresh(p+"_len", sortInt)
		k := e.q.freshBound("k")
		srcHas := fmt.Sprintf("(and (not (= %s 0)) (select (select %s %s) %s))", src.term, st.get(sdom), src.term, k)
		st.assume(fmt.Sprintf("(forall ((%[1]s %[2]s)) (and (= (select %[3]s %[1]s) (or (select (select %[4]s %[5]s) %[1]s) %[6]s)) (= (select %[7]s %[1]s) (ite %[6]s (select (select %[8]s %[9]s) %[1]s) (select (select %[10]s %[5]s) %[1]s)))))",
			k, ks, nd, st.get(dom), dst.term, srcHas, nv, st.get(sval), src.term, st.get(val)))
		st.assume("(>= " + nl + " " + sel(st.get(ln), dst.term) + ")")
		st.set(dom, store(st.get(dom), dst.term, nd))
		st.set(val, store(st.get(val), dst.term, nv))
		st.set(ln, store(st.get(ln), dst.term, nl))
		return Value{typ: types.NewTuple()}
	}
	genericModels["slices.Clone["] = func(e *Enc, fr *frame, st *State, a []Value, p string, rt types.Type) Value {
		s := a[0]
		et := s.typ.Underlying().(*types.Slice).Elem()
		ek := e.elemKey(et)
		ref := e.q.define(p+"_arr", sortInt, st.ap)
		st.ap = e.q.define("ap", sortInt, "(+ "+st.ap+" 1)")
		st.assume("(> " + ref + " 0)")
		arr := e.q.fresh(p+"_elems", "(Array Int "+e.u.sortOf(et)+")")
		i := e.q.freshBound("i")
		st.assume(fmt.Sprintf("(forall ((%[1]s Int)) (=> (and (<= 0 %[1]s) (< %[1]s (s_len %[2]s))) (= (select %[3]s %[1]s) (select (select %[4]s (s_arr %[2]s)) %[5]s))))", i, s.term, arr, st.get(ek), e.q.idxOf(s.term, i)))
		st.set(ek, store(st.get(ek), ref, arr))
		res := e.q.define(p, sortSlice, ite("(= (s_arr "+s.term+") 0)", "nil_slice", fmt.Sprintf("(mk_slice %s 0 (s_len %s) (s_len %s))", ref, s.term, s.term)))
		return Value{term: res, typ: rt}
	}
	// github.com/gammazero/deque: sequence ADT. The deque at pointer p has
	// length DQL[p] and elements DQE[p][0..len-1] (front first).
	dqKeys := func(e *Enc, recv Value) (string, string, types.Type) {
		named := recv.typ.Underlying().(*types.Pointer).Elem()
		var et types.Type
		if n, ok := types.Unalias(named).(*types.Named); ok && n.TypeArgs().Len() == 1 {
			et = n.TypeArgs().At(0)
		}
		lk := "DQL"
		ek := "DQE:" + shortTypeName(et)
		if _, ok := e.q.keySort(lk); !ok {
			e.q.declareHeap(lk, "(Array Int Int)")
		}
		if _, ok := e.q.keySort(ek); !ok {
			e.q.declareHeap(ek, "(Array Int (Array Int "+e.u.sortOf(et)+"))")
		}
		return lk, ek, et
	}
	genericModels["(*github.com/gammazero/deque.Deque["] = func(e *Enc, fr *frame, st *State, a []Value, p string, rt types.Type) Value {
		lk, ek, et := dqKeys(e, a[0])
		recv := a[0].term
		ln := sel(st.get(lk), recv)
		st.assume("(and (>= " + ln + " 0) (<= " + ln + " 4611686018427387904))")
		name := ""
		if curCall != nil && curCall.StaticCallee() != nil {
			name = curCall.StaticCallee().Name()
		}
		switch name {
		case "Len":
			return Value{term: e.q.define(p, sortInt, ln), typ: rt}
		case "At":
			e.oblige(st, "nopanic", "deque.At out of range", "(and (<= 0 "+a[1].term+") (< "+a[1].term+" "+ln+"))", 0)
			v := Value{term: e.q.define(p, e.u.sortOf(et), sel(sel(st.get(ek), recv), a[1].term)), typ: et}
			st.assume(e.wf(st, et, v.term))
			return v
		case "PushBack":
			st.set(ek, store(st.get(ek), recv, store(sel(st.get(ek), recv), ln, a[1].term)))
			st.set(lk, store(st.get(lk), recv, "(+ "+ln+" 1)"))
			return Value{typ: types.NewTuple()}
		case "PopFront":
			e.oblige(st, "nopanic", "deque.PopFront on empty deque", "(> "+ln+" 0)", 0)
			old := sel(st.get(ek), recv)
			front := e.q.define(p, e.u.sortOf(et), sel(old, "0"))
			na := e.q.fresh(p+"_shift", "(Array Int "+e.u.sortOf(et)+")")
			i := e.q.freshBound("i")
			st.assume(fmt.Sprintf("(forall ((%[1]s Int)) (= (select %[2]s %[1]s) (select %[3]s (+ %[1]s 1))))", i, na, old))
			st.set(ek, store(st.get(ek), recv, na))
			st.set(lk, store(st.get(lk), recv, "(- "+ln+" 1)"))
			return Value{term: front, typ: et}
		}
		e.q.note("unsupported deque method %s", name)
		st.havocKey(lk, nil)
		st.havocKey(ek, nil)
		return e.freshResult(st, p, rt)
	}
	// slices.ContainsFunc(s, f): f is called on elements of s in place. If f
	// is a known function whose (inferred or declared) effects are empty, the
	// call changes nothing; the result is not interpreted.
	genericModels["slices.ContainsFunc["] = func(e *Enc, fr *frame, st *State, a []Value, p string, rt types.Type) Value {
		pure := false
		if a[1].clo != nil && a[1].clo.fn != nil && a[1].clo.fn.Blocks != nil {
			ws := e.v.funcWriteSet(e, a[1].clo.fn)
			pure = !ws.all && !ws.ghosts && !ws.closes && len(ws.keys) == 0
		}
		if !pure {
			e.unknownCall(fr, st, "slices.ContainsFunc with a function of unknown effect", a)
		}
		return e.freshValue(st, p, boolT)
	}
	genericModels["slices.Contains["] = func(e *Enc, fr *frame, st *State, a []Value, p string, rt types.Type) Value {
		s, v := a[0], a[1]
		et := s.typ.Underlying().(*types.Slice).Elem()
		ek := e.elemKey(et)
		i := e.q.freshBound("i")
		r := e.q.fresh(p, sortBool)
		st.assume(fmt.Sprintf("(= %[1]s (exists ((%[2]s Int)) (and (<= 0 %[2]s) (< %[2]s (s_len %[3]s)) (= (select (select %[4]s (s_arr %[3]s)) %[6]s) %[5]s))))", r, i, s.term, st.get(ek), v.term, e.q.idxOf(s.term, i)))
		return Value{term: r, typ: boolT}
	}
	trustedModels = map[string]modelFn{
		// fmt.Sprintf with the constant format "%s_%s" and two string-typed
		// operands is concatenation; any other use yields an unconstrained string.
		"fmt.Sprintf": func(e *Enc, fr *frame, st *State, a []Value, p string, rt types.Type) Value {
			res := Value{term: e.q.fresh(p, sortString), typ: rt}
			if curCall != nil {
				if c, ok := curCall.Args[0].(*ssa.Const); ok && c.Value != nil && c.Value.Kind() == constant.String && constant.StringVal(c.Value) == "%s_%s" {
					ek := e.elemKey(types.Universe.Lookup("any").Type())
					el := func(i int) string {
						return sel(sel(st.get(ek), "(s_arr "+a[1].term+")"), e.q.idxOf(a[1].term, fmt.Sprint(i)))
					}
					isStr := func(x string) string {
						return "((_ is VStr) (ival " + x + "))"
					}
					st.assume(fmt.Sprintf("(=> (and (= (s_len %s) 2) %s %s) (= %s (str.++ (vstr (ival %s)) \"_\" (vstr (ival %s)))))", a[1].term, isStr(el(0)), isStr(el(1)), res.term, el(0), el(1)))
				}
			}
			return res
		},
		"(*math/rand.Rand).Int63n": func(e *Enc, fr *frame, st *State, a []Value, p string, rt types.Type) Value {
			e.oblige(st, "nopanic", "rand.Int63n n<=0", "(> "+a[1].term+" 0)", 0)
			r := e.freshValue(st, p, rt)
			st.assume("(and (<= 0 " + r.term + ") (< " + r.term + " " + a[1].term + "))")
			return r
		},
		"time.NewTimer": func(e *Enc, fr *frame, st *State, a []Value, p string, rt types.Type) Value {
			r := e.freshValue(st, p, rt)
			st.assume("(not (= " + r.term + " 0))")
			return r
		},
		"time.NewTicker": func(e *Enc, fr *frame, st *State, a []Value, p string, rt types.Type) Value {
			r := e.freshValue(st, p, rt)
			st.assume("(not (= " + r.term + " 0))")
			return r
		},
		// bytes.Equal(a, b): same length and same bytes
		"bytes.Equal": func(e *Enc, fr *frame, st *State, a []Value, p string, rt types.Type) Value {
			ek := e.elemKey(types.Typ[types.Uint8])
			i := e.q.freshBound("i")
			r := e.q.fresh(p, sortBool)
			h := st.get(ek)
			st.assume(fmt.Sprintf("(= %[1]s (and (= (s_len %[2]s) (s_len %[3]s)) (forall ((%[4]s Int)) (=> (and (<= 0 %[4]s) (< %[4]s (s_len %[2]s))) (= (select (select %[5]s (s_arr %[2]s)) %[6]s) (select (select %[5]s (s_arr %[3]s)) %[7]s))))))",
				r, a[0].term, a[1].term, i, h, e.q.idxOf(a[0].term, i), e.q.idxOf(a[1].term, i)))
			return Value{term: r, typ: boolT}
		},
		// reflect.Value.Len(): a non-negative number that depends only on the value
		"(reflect.Value).Len": func(e *Enc, fr *frame, st *State, a []Value, p string, rt types.Type) Value {
			so := e.u.sortOf(a[0].typ)
			e.v.declFun("refl_len", "("+so+") Int")
			r := e.q.define(p, sortInt, "(refl_len "+a[0].term+")")
			st.assume("(and (<= 0 " + r + ") (<= " + r + " 4611686018427387904))")
			return Value{term: r, typ: rt}
		},
		"context.Background": func(e *Enc, fr *frame, st *State, a []Value, p string, rt types.Type) Value {
			r := e.freshValue(st, p, rt)
			st.assume("(not (= (itag " + r.term + ") 0))")
			return r
		},
		"context.WithTimeout": func(e *Enc, fr *frame, st *State, a []Value, p string, rt types.Type) Value {
			r := e.freshValue(st, p, rt)
			st.assume("(and (not (= (itag " + r.tuple[0].term + ") 0)) (not (= " + r.tuple[1].term + " 0)))")
			ctxDerived(e, st, a[0], r.tuple[0], r.tuple[1].term)
			return r
		},
		"context.WithValue": func(e *Enc, fr *frame, st *State, a []Value, p string, rt types.Type) Value {
			r := e.freshValue(st, p, rt)
			st.assume("(not (= (itag " + r.term + ") 0))")
			ctxDerived(e, st, a[0], r, "")
			return r
		},
		"context.WithDeadline": func(e *Enc, fr *frame, st *State, a []Value, p string, rt types.Type) Value {
			r := e.freshValue(st, p, rt)
			st.assume("(and (not (= (itag " + r.tuple[0].term + ") 0)) (not (= " + r.tuple[1].term + " 0)))")
			ctxDerived(e, st, a[0], r.tuple[0], r.tuple[1].term)
			return r
		},
		"context.WithCancel": func(e *Enc, fr *frame, st *State, a []Value, p string, rt types.Type) Value {
			r := e.freshValue(st, p, rt)
			st.assume("(and (not (= (itag " + r.tuple[0].term + ") 0)) (not (= " + r.tuple[1].term + " 0)))")
			ctxDerived(e, st, a[0], r.tuple[0], r.tuple[1].term)
			return r
		},
		// io.ReadFull(r, buf): buf is overwritten with unknown bytes; n == len(buf) iff err == nil
		"io.ReadFull": func(e *Enc, fr *frame, st *State, a []Value, p string, rt types.Type) Value {
			e.oblige(st, "nopanic", "nil-interface-call Read (io.ReadFull)", "(not (= (itag "+a[0].term+") 0))", 0)
			ek := e.elemKey(types.Typ[types.Uint8])
			na := e.q.fresh(p+"_bytes", "(Array Int Int)")
			j := e.q.freshBound("j")
			st.assume(fmt.Sprintf("(forall ((%[1]s Int)) (and (<= 0 (select %[2]s %[1]s)) (<= (select %[2]s %[1]s) 255)))", j, na))
			st.set(ek, store(st.get(ek), "(s_arr "+a[1].term+")", na))
			r := e.freshValue(st, p, rt)
			st.assume("(=> (= (itag " + r.tuple[1].term + ") 0) (= " + r.tuple[0].term + " (s_len " + a[1].term + ")))")
			return r
		},
		"io.CopyN": func(e *Enc, fr *frame, st *State, a []Value, p string, rt types.Type) Value {
			return e.freshValue(st, p, rt)
		},
		"math/rand.New": func(e *Enc, fr *frame, st *State, a []Value, p string, rt types.Type) Value {
			r := e.freshValue(st, p, rt)
			st.assume("(not (= " + r.term + " 0))")
			return r
		},
		"fmt.Errorf": func(e *Enc, fr *frame, st *State, a []Value, p string, rt types.Type) Value {
			r := e.freshValue(st, p, rt)
			st.assume("(not (= (itag " + r.term + ") 0))")
			return r
		},
		"errors.New": func(e *Enc, fr *frame, st *State, a []Value, p string, rt types.Type) Value {
			r := e.freshValue(st, p, rt)
			st.assume("(not (= (itag " + r.term + ") 0))")
			return r
		},
		"strings.HasPrefix": func(e *Enc, fr *frame, st *State, a []Value, p string, rt types.Type) Value {
			return Value{term: e.q.define(p, sortBool, "(str.prefixof "+a[1].term+" "+a[0].term+")"), typ: boolT}
		},
		"strings.HasSuffix": func(e *Enc, fr *frame, st *State, a []Value, p string, rt types.Type) Value {
			return Value{term: e.q.define(p, sortBool, "(str.suffixof "+a[1].term+" "+a[0].term+")"), typ: boolT}
		},
		"strings.Contains": func(e *Enc, fr *frame, st *State, a []Value, p string, rt types.Type) Value {
			return Value{term: e.q.define(p, sortBool, "(str.contains "+a[0].term+" "+a[1].term+")"), typ: boolT}
		},
		"strings.Split": func(e *Enc, fr *frame, st *State, a []Value, p string, rt types.Type) Value {
			e.v.declFun("ncomp", "(String String) Int")
			e.v.declFun("comp", "(String String Int) String")
			ref := e.q.define(p+"_arr", sortInt, st.ap)
			st.ap = e.q.define("ap", sortInt, "(+ "+st.ap+" 1)")
			st.assume("(> " + ref + " 0)")
			ek := e.elemKey(types.Typ[types.String])
			arr := e.q.fresh(p+"_elems", "(Array Int String)")
			n := "(ncomp " + a[0].term + " " + a[1].term + ")"
			i := e.q.freshBound("i")
			st.assume(fmt.Sprintf("(and (>= %[1]s 1) (<= %[1]s (+ (str.len %[4]s) 1)) (forall ((%[2]s Int)) (=> (and (<= 0 %[2]s) (< %[2]s %[1]s)) (= (select %[3]s %[2]s) (comp %[4]s %[5]s %[2]s)))))", n, i, arr, a[0].term, a[1].term))
			st.set(ek, store(st.get(ek), ref, arr))
			res := e.q.define(p, sortSlice, fmt.Sprintf("(mk_slice %s 0 %s %s)", ref, n, n))
			e.q.markOff0(res)
			st.assume(e.wfSlice(st, res))
			return Value{term: res, typ: rt}
		},
		// math/big and crypto/rand: bigval(p) is the (immutable) mathematical
		// value of the *big.Int p.
		"math/big.NewInt": func(e *Enc, fr *frame, st *State, a []Value, p string, rt types.Type) Value {
			e.v.declFun("bigval", "(Int) Int")
			r := e.freshValue(st, p, rt)
			st.assume("(and (not (= " + r.term + " 0)) (= (bigval " + r.term + ") " + a[0].term + "))")
			return r
		},
		"crypto/rand.Int": func(e *Enc, fr *frame, st *State, a []Value, p string, rt types.Type) Value {
			// documented: uniform in [0, max); panics if max <= 0; the
			// entropy source never fails (Go >= 1.24).
			e.v.declFun("bigval", "(Int) Int")
			e.oblige(st, "nopanic", "rand.Int max<=0", "(> (bigval "+a[1].term+") 0)", 0)
			r := e.freshValue(st, p, rt)
			st.assume("(and (= " + r.tuple[1].term + " nil_iface) (not (= " + r.tuple[0].term + " 0)) (<= 0 (bigval " + r.tuple[0].term + ")) (< (bigval " + r.tuple[0].term + ") (bigval " + a[1].term + ")))")
			return r
		},
		"(*math/big.Int).Int64": func(e *Enc, fr *frame, st *State, a []Value, p string, rt types.Type) Value {
			e.v.declFun("bigval", "(Int) Int")
			r := e.freshValue(st, p, rt)
			st.assume("(=> " + inRange(types.Typ[types.Int64], "(bigval "+a[0].term+")") + " (= " + r.term + " (bigval " + a[0].term + ")))")
			return r
		},
		"(*regexp.Regexp).MatchString": func(e *Enc, fr *frame, st *State, a []Value, p string, rt types.Type) Value {
			if curCall != nil {
				if ld, ok := curCall.Args[0].(*ssa.UnOp); ok && ld.Op == token.MUL {
					if g, ok := ld.X.(*ssa.Global); ok {
						if pat, ok := e.v.regexOfGlobal(g); ok {
							re, err := regexToSMT(pat)
							if err == nil {
								e.v.regexUsed[g.Name()] = pat
								return Value{term: e.q.define(p, sortBool, "(str.in_re "+a[1].term+" "+re+")"), typ: boolT}
							}
							e.q.note("regexp %q not translatable: %v", pat, err)
						}
					}
				}
			}
			e.q.note("abstraction: regexp match with unknown pattern is unconstrained")
			return e.freshValue(st, p, boolT)
		},
	}
}

// regexOfGlobal finds the literal pattern a package-level *regexp.Regexp
// variable is initialised with.
func (v *Verifier) regexOfGlobal(g *ssa.Global) (string, bool) {
	init := g.Pkg.Func("init")
	if init == nil {
		return "", false
	}
	pat, found, multiple := "", false, false
	for _, b := range init.Blocks {
		for _, ins := range b.Instrs {
			stI, ok := ins.(*ssa.Store)
			if !ok || stI.Addr != ssa.Value(g) {
				continue
			}
			call, ok := stI.Val.(*ssa.Call)
			if !ok {
				return "", false
			}
			sc := call.Common().StaticCallee()
			if sc == nil || sc.String() != "regexp.MustCompile" {
				return "", false
			}
			c, ok := call.Common().Args[0].(*ssa.Const)
			if !ok || c.Value == nil || c.Value.Kind() != constant.String {
				return "", false
			}
			if found {
				multiple = true
			}
			pat, found = constant.StringVal(c.Value), true
		}
	}
	// any other store to the global elsewhere invalidates the lookup
	for fn := range v.allFuncs() {
		if fn == init {
			continue
		}
		for _, b := range fn.Blocks {
			for _, ins := range b.Instrs {
				if stI, ok := ins.(*ssa.Store); ok && stI.Addr == ssa.Value(g) {
					return "", false
				}
			}
		}
	}
	return pat, found && !multiple
}

func (v *Verifier) allFuncs() map[*ssa.Function]bool {
	if v.allFns == nil {
		v.allFns = map[*ssa.Function]bool{}
		for _, fn := range v.fnByKey {
			v.allFns[fn] = true
		}
	}
	return v.allFns
}

const smtMaxChar = 0x2FFFF

func smtCharLit(r rune) string {
	if r >= 0x20 && r < 0x7f && r != '"' && r != '\\' {
		return `"` + string(r) + `"`
	}
	if r == '"' {
		return `""""`
	}
	return fmt.Sprintf(`"\u{%x}"`, r)
}

// regexToSMT translates a Go regular expression used with MatchString
// (unanchored search semantics) into an SMT-LIB RegLan term.
func regexToSMT(pattern string) (string, error) {
	re, err := syntax.Parse(pattern, syntax.Perl)
	if err != nil {
		return "", err
	}
	re = re.Simplify()
	var parts []*syntax.Regexp
	if re.Op == syntax.OpConcat {
		parts = re.Sub
	} else {
		parts = []*syntax.Regexp{re}
	}
	begin, end := false, false
	if len(parts) > 0 && parts[0].Op == syntax.OpBeginText {
		begin = true
		parts = parts[1:]
	}
	if len(parts) > 0 && parts[len(parts)-1].Op == syntax.OpEndText {
		end = true
		parts = parts[:len(parts)-1]
	}
	var terms []string
	if !begin {
		terms = append(terms, "re.all")
	}
	for _, p := range parts {
		t, err := reTerm(p)
		if err != nil {
			return "", err
		}
		terms = append(terms, t)
	}
	if !end {
		terms = append(terms, "re.all")
	}
	switch len(terms) {
	case 0:
		return `(str.to_re "")`, nil
	case 1:
		return terms[0], nil
	}
	return "(re.++ " + strings.Join(terms, " ") + ")", nil
}

func reTerm(re *syntax.Regexp) (string, error) {
	switch re.Op {
	case syntax.OpEmptyMatch:
		return `(str.to_re "")`, nil
	case syntax.OpLiteral:
		if re.Flags&syntax.FoldCase != 0 {
			return "", fmt.Errorf("case folding unsupported")
		}
		return "(str.to_re " + smtString(string(re.Rune)) + ")", nil
	case syntax.OpCharClass:
		var alts []string
		for i := 0; i+1 < len(re.Rune); i += 2 {
			lo, hi := re.Rune[i], re.Rune[i+1]
			if lo > smtMaxChar {
				continue
			}
			if hi > smtMaxChar {
				hi = smtMaxChar
			}
			if lo == hi {
				alts = append(alts, "(str.to_re "+smtCharLit(lo)+")")
			} else {
				alts = append(alts, "(re.range "+smtCharLit(lo)+" "+smtCharLit(hi)+")")
			}
		}
		switch len(alts) {
		case 0:
			return "re.none", nil
		case 1:
			return alts[0], nil
		}
		return "(re.union " + strings.Join(alts, " ") + ")", nil
	case syntax.OpAnyChar:
		return "re.allchar", nil
	case syntax.OpAnyCharNotNL:
		return `(re.diff re.allchar (str.to_re "\u{a}"))`, nil
	case syntax.OpCapture:
		return reTerm(re.Sub[0])
	case syntax.OpStar, syntax.OpPlus, syntax.OpQuest:
		s, err := reTerm(re.Sub[0])
		if err != nil {
			return "", err
		}
		op := map[syntax.Op]string{syntax.OpStar: "re.*", syntax.OpPlus: "re.+", syntax.OpQuest: "re.opt"}[re.Op]
		return "(" + op + " " + s + ")", nil
	case syntax.OpRepeat:
		s, err := reTerm(re.Sub[0])
		if err != nil {
			return "", err
		}
		if re.Max < 0 {
			return fmt.Sprintf("(re.++ ((_ re.^ %d) %s) (re.* %s))", re.Min, s, s), nil
		}
		return fmt.Sprintf("((_ re.loop %d %d) %s)", re.Min, re.Max, s), nil
	case syntax.OpConcat, syntax.OpAlternate:
		var ts []string
		for _, sub := range re.Sub {
			t, err := reTerm(sub)
			if err != nil {
				return "", err
			}
			ts = append(ts, t)
		}
		if len(ts) == 1 {
			return ts[0], nil
		}
		op := "re.++"
		if re.Op == syntax.OpAlternate {
			op = "re.union"
		}
		return "(" + op + " " + strings.Join(ts, " ") + ")", nil
	}
	return "", fmt.Errorf("regexp operator %v unsupported", re.Op)
}

// referenceLanguages builds, from the property statement (not from the
// code), the languages of valid URIs.
func referenceLanguages() map[string]string {
	// loose component character: anything but whitespace [\t\n\f\r ], '.', '#'
	var looseEx []rune
	for _, r := range "\t\n\f\r .#" {
		looseEx = append(looseEx, r)
	}
	_ = unicode.IsSpace
	exclude := func(rs []rune) string {
		var alts []string
		for _, r := range rs {
			alts = append(alts, "(str.to_re "+smtCharLit(r)+")")
		}
		return "(re.diff re.allchar (re.union " + strings.Join(alts, " ") + "))"
	}
	loose := exclude(looseEx)
	strict := `(re.union (re.range "0" "9") (re.range "a" "z") (str.to_re "_"))`
	dot := `(str.to_re ".")`
	out := map[string]string{}
	for name, c := range map[string]string{"loose": loose, "strict": strict} {
		plus := "(re.+ " + c + ")"
		star := "(re.* " + c + ")"
		// exact: C+ ( . C+ )*
		out[name+"-exact"] = "(re.++ " + plus + " (re.* (re.++ " + dot + " " + plus + ")))"
		// prefix: ( C+ . )* C*
		out[name+"-prefix"] = "(re.++ (re.* (re.++ " + plus + " " + dot + ")) " + star + ")"
		// wildcard: C* ( . C* )*
		out[name+"-wildcard"] = "(re.++ " + star + " (re.* (re.++ " + dot + " " + star + ")))"
	}
	return out
}

// ctxDerived records the cancellation relation of the context package: the
// returned cancel function (if any) cancels the new context, and so does every
// function that cancels its parent.
func ctxDerived(e *Enc, st *State, parent, ctx Value, cancel string) {
	e.v.declFun("ctx_cancels", "(Int Iface) Bool")
	f := e.q.freshBound("f")
	st.assume(fmt.Sprintf("(forall ((%[1]s Int)) (! (=> (ctx_cancels %[1]s %[2]s) (ctx_cancels %[1]s %[3]s)) :pattern ((ctx_cancels %[1]s %[3]s))))", f, parent.term, ctx.term))
	if cancel != "" {
		st.assume("(ctx_cancels " + cancel + " " + ctx.term + ")")
	}
}
