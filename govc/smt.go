package main

// SMT-LIB term construction and Go-type -> SMT-sort mapping.

import (
	"regexp"
	"fmt"
	"go/constant"
	"go/types"
	"math/big"
	"sort"
	"strings"
)

func sanitize(s string) string {
	var b strings.Builder
	for _, r := range s {
		switch {
		case r >= 'a' && r <= 'z', r >= 'A' && r <= 'Z', r >= '0' && r <= '9', r == '_':
			b.WriteRune(r)
		case r == '.', r == '/', r == '$', r == '-':
			b.WriteByte('_')
		case r == '*':
			b.WriteString("P")
		case r == '[':
			b.WriteString("L")
		case r == ']':
			b.WriteString("J")
		case r == '(' || r == ')' || r == ' ' || r == ',' || r == '{' || r == '}' || r == ';':
			b.WriteByte('_')
		default:
			fmt.Fprintf(&b, "x%x", r)
		}
	}
	return b.String()
}

func smtInt(n int64) string {
	if n < 0 {
		return fmt.Sprintf("(- %d)", -n)
	}
	return fmt.Sprintf("%d", n)
}

func smtBig(n *big.Int) string {
	if n.Sign() < 0 {
		return "(- " + new(big.Int).Neg(n).String() + ")"
	}
	return n.String()
}

// smtString renders a Go string as an SMT-LIB string literal.
func smtString(s string) string {
	var b strings.Builder
	b.WriteByte('"')
	for _, r := range s {
		switch {
		case r == '"':
			b.WriteString(`""`)
		case r >= 0x20 && r < 0x7f && r != '\\':
			b.WriteRune(r)
		default:
			fmt.Fprintf(&b, "\\u{%x}", r)
		}
	}
	b.WriteByte('"')
	return b.String()
}

func and(ts ...string) string {
	var xs []string
	for _, t := range ts {
		if t == "true" || t == "" {
			continue
		}
		if t == "false" {
			return "false"
		}
		xs = append(xs, t)
	}
	switch len(xs) {
	case 0:
		return "true"
	case 1:
		return xs[0]
	}
	return "(and " + strings.Join(xs, " ") + ")"
}

func or(ts ...string) string {
	var xs []string
	for _, t := range ts {
		if t == "false" || t == "" {
			continue
		}
		if t == "true" {
			return "true"
		}
		xs = append(xs, t)
	}
	switch len(xs) {
	case 0:
		return "false"
	case 1:
		return xs[0]
	}
	return "(or " + strings.Join(xs, " ") + ")"
}

func not(t string) string {
	switch t {
	case "true":
		return "false"
	case "false":
		return "true"
	}
	if strings.HasPrefix(t, "(not ") && strings.HasSuffix(t, ")") && balanced(t[5:len(t)-1]) {
		return t[5 : len(t)-1]
	}
	return "(not " + t + ")"
}

func balanced(s string) bool {
	d := 0
	inStr := false
	for i := 0; i < len(s); i++ {
		c := s[i]
		if inStr {
			if c == '"' {
				inStr = false
			}
			continue
		}
		switch c {
		case '"':
			inStr = true
		case '(':
			d++
		case ')':
			d--
			if d < 0 {
				return false
			}
		case ' ':
			if d == 0 {
				return false
			}
		}
	}
	return d == 0
}

func implies(a, b string) string {
	if a == "true" {
		return b
	}
	if a == "false" || b == "true" {
		return "true"
	}
	return "(=> " + a + " " + b + ")"
}

func ite(c, a, b string) string {
	if c == "true" {
		return a
	}
	if c == "false" {
		return b
	}
	if a == b {
		return a
	}
	return "(ite " + c + " " + a + " " + b + ")"
}

func eq(a, b string) string {
	if a == b {
		return "true"
	}
	return "(= " + a + " " + b + ")"
}

func app(f string, args ...string) string {
	if len(args) == 0 {
		return f
	}
	return "(" + f + " " + strings.Join(args, " ") + ")"
}

func sel(a, i string) string      { return "(select " + a + " " + i + ")" }
func store(a, i, v string) string { return "(store " + a + " " + i + " " + v + ")" }

// ---------------------------------------------------------------------------
// Sorts

const (
	sortInt    = "Int"
	sortBool   = "Bool"
	sortString = "String"
	sortFlt    = "Flt"
	sortSlice  = "Slice"
	sortIface  = "Iface"
	sortVal    = "Val"
)

// Universe collects the sort/datatype/tag declarations shared by all queries
// generated in one run.
type Universe struct {
	structSorts map[string]*structSort // key: canonical struct key
	structOrder []*structSort
	tags        map[string]int // type string -> tag
	tagTypes    []types.Type
	tupleSorts  map[string]bool
	boxFuns     map[string]string // struct sort -> declared
	ifaceImpl   map[string]bool
}

type structSort struct {
	key    string
	name   string // SMT sort name
	st     *types.Struct
	fields []string // selector names
	sorts  []string
}

func newUniverse() *Universe {
	return &Universe{structSorts: map[string]*structSort{}, tags: map[string]int{}, tupleSorts: map[string]bool{}, boxFuns: map[string]string{}, ifaceImpl: map[string]bool{}}
}

// typeKey is the canonical string of a type (package-qualified).
func typeKey(t types.Type) string {
	return types.TypeString(t, func(p *types.Package) string { return p.Path() })
}

func shortTypeName(t types.Type) string {
	s := types.TypeString(t, func(p *types.Package) string {
		// repository packages by name; everything else by path (names such
		// as sync.Mutex / internal/sync.Mutex would collide otherwise)
		if strings.HasPrefix(p.Path(), "github.com/gammazero/nexus/v3") || !strings.Contains(p.Path(), "/") {
			if strings.HasPrefix(p.Path(), "internal") {
				return p.Path()
			}
			return p.Name()
		}
		return p.Path()
	})
	// byte and rune are aliases: one heap family per underlying type
	s = aliasByteRe.ReplaceAllString(s, "uint8")
	s = aliasRuneRe.ReplaceAllString(s, "int32")
	return sanitize(s)
}

var aliasByteRe = regexp.MustCompile(`\bbyte\b`)
var aliasRuneRe = regexp.MustCompile(`\brune\b`)

// structKey names the field-array family of a struct type: named types by
// their name, anonymous by structure.
func structKey(t types.Type) string {
	if n, ok := types.Unalias(t).(*types.Named); ok {
		return shortTypeName(n)
	}
	return "anon_" + sanitize(typeKey(t.Underlying()))
}

func isRefLike(t types.Type) bool {
	switch u := t.Underlying().(type) {
	case *types.Pointer, *types.Map, *types.Chan, *types.Signature:
		return true
	case *types.Basic:
		return u.Kind() == types.UnsafePointer
	}
	return false
}

// sortOf maps a Go type to its SMT sort.
func (u *Universe) sortOf(t types.Type) string {
	t = types.Unalias(t)
	switch x := t.Underlying().(type) {
	case *types.Basic:
		switch {
		case x.Info()&types.IsBoolean != 0:
			return sortBool
		case x.Info()&types.IsInteger != 0:
			return sortInt
		case x.Info()&types.IsString != 0:
			return sortString
		case x.Info()&types.IsFloat != 0, x.Info()&types.IsComplex != 0:
			return sortFlt
		case x.Kind() == types.UnsafePointer:
			return sortInt
		case x.Kind() == types.UntypedNil:
			return sortInt
		}
		return sortInt
	case *types.Pointer, *types.Map, *types.Chan, *types.Signature:
		return sortInt
	case *types.Slice:
		return sortSlice
	case *types.Interface:
		return sortIface
	case *types.Struct:
		return u.structSortOf(t).name
	case *types.Array:
		return "(Array Int " + u.sortOf(x.Elem()) + ")"
	case *types.Tuple:
		// tuples are handled at encoder level; should not reach here
		return "TUPLE"
	case *types.TypeParam:
		return sortIface
	}
	return sortInt
}

func (u *Universe) structSortOf(t types.Type) *structSort {
	key := structKey(t)
	if s, ok := u.structSorts[key]; ok {
		return s
	}
	st := t.Underlying().(*types.Struct)
	s := &structSort{key: key, name: "S_" + key, st: st}
	u.structSorts[key] = s // placeholder to break cycles (impossible by value, but be safe)
	for i := 0; i < st.NumFields(); i++ {
		f := st.Field(i)
		s.fields = append(s.fields, fmt.Sprintf("%s_f%d_%s", s.name, i, sanitize(f.Name())))
		s.sorts = append(s.sorts, u.sortOf(f.Type()))
	}
	u.structOrder = append(u.structOrder, s)
	globalStructTypes[s.name] = t
	return s
}

// globalStructTypes remembers, for the whole run, which Go type a struct sort
// name stands for, so that a heap key first declared while encoding another
// unit can be re-declared in a later unit's universe.
var globalStructTypes = map[string]types.Type{}

var structSortRe = regexp.MustCompile(`S_[A-Za-z0-9_]+`)

// ensureSorts declares every struct sort mentioned in an SMT sort expression.
func (u *Universe) ensureSorts(sortExpr string) {
	for _, name := range structSortRe.FindAllString(sortExpr, -1) {
		if t, ok := globalStructTypes[name]; ok {
			u.structSortOf(t)
		}
	}
}

// tagOf returns the interface dynamic-type tag (>0) for a concrete type.
func (u *Universe) tagOf(t types.Type) int {
	t = types.Unalias(t)
	k := typeKey(t)
	if n, ok := u.tags[k]; ok {
		return n
	}
	n := len(u.tagTypes) + 1
	u.tags[k] = n
	u.tagTypes = append(u.tagTypes, t)
	return n
}

// intRange returns the inclusive range of an integer type.
func intRange(t types.Type) (lo, hi *big.Int, ok bool) {
	b, isB := t.Underlying().(*types.Basic)
	if !isB || b.Info()&types.IsInteger == 0 {
		return nil, nil, false
	}
	bits := 64
	switch b.Kind() {
	case types.Int8, types.Uint8:
		bits = 8
	case types.Int16, types.Uint16:
		bits = 16
	case types.Int32, types.Uint32:
		bits = 32
	}
	if b.Info()&types.IsUnsigned != 0 {
		hi = new(big.Int).Sub(new(big.Int).Lsh(big.NewInt(1), uint(bits)), big.NewInt(1))
		return big.NewInt(0), hi, true
	}
	hi = new(big.Int).Sub(new(big.Int).Lsh(big.NewInt(1), uint(bits-1)), big.NewInt(1))
	lo = new(big.Int).Neg(new(big.Int).Lsh(big.NewInt(1), uint(bits-1)))
	return lo, hi, true
}

func inRange(t types.Type, term string) string {
	lo, hi, ok := intRange(t)
	if !ok {
		return "true"
	}
	return "(and (<= " + smtBig(lo) + " " + term + ") (<= " + term + " " + smtBig(hi) + "))"
}

// wrapInt wraps a mathematical integer term into the range of t (two's
// complement semantics).
func wrapInt(t types.Type, term string) string {
	lo, hi, ok := intRange(t)
	if !ok {
		return term
	}
	size := new(big.Int).Add(new(big.Int).Sub(hi, lo), big.NewInt(1))
	var wrapped string
	if lo.Sign() == 0 {
		wrapped = "(mod " + term + " " + size.String() + ")"
	} else {
		wrapped = "(+ (mod (- " + term + " " + smtBig(lo) + ") " + size.String() + ") " + smtBig(lo) + ")"
	}
	return "(ite " + inRange(t, term) + " " + term + " " + wrapped + ")"
}

// zero returns the zero value term of type t.
func (u *Universe) zero(t types.Type) string {
	t = types.Unalias(t)
	switch x := t.Underlying().(type) {
	case *types.Basic:
		switch {
		case x.Info()&types.IsBoolean != 0:
			return "false"
		case x.Info()&types.IsString != 0:
			return `""`
		case x.Info()&types.IsFloat != 0, x.Info()&types.IsComplex != 0:
			return "flt_zero"
		}
		return "0"
	case *types.Slice:
		return "(mk_slice 0 0 0 0)"
	case *types.Interface, *types.TypeParam:
		return "(mk_iface 0 (VRef 0))"
	case *types.Struct:
		s := u.structSortOf(t)
		if len(s.fields) == 0 {
			return "mk_" + s.name
		}
		args := make([]string, x.NumFields())
		for i := range args {
			args[i] = u.zero(x.Field(i).Type())
		}
		return app("mk_"+s.name, args...)
	case *types.Array:
		return "((as const " + u.sortOf(t) + ") " + u.zero(x.Elem()) + ")"
	}
	return "0"
}

// constTerm renders a typed Go constant.
func (u *Universe) constTerm(t types.Type, v constant.Value) string {
	if v == nil {
		return u.zero(t)
	}
	switch v.Kind() {
	case constant.Bool:
		if constant.BoolVal(v) {
			return "true"
		}
		return "false"
	case constant.String:
		return smtString(constant.StringVal(v))
	case constant.Int:
		if b, ok := t.Underlying().(*types.Basic); ok && b.Info()&types.IsFloat != 0 {
			return "(flt_of_int " + v.ExactString() + ")"
		}
		bi, _ := new(big.Int).SetString(v.ExactString(), 10)
		return smtBig(bi)
	case constant.Float:
		if b, ok := t.Underlying().(*types.Basic); ok && b.Info()&types.IsInteger != 0 {
			if i := constant.ToInt(v); i.Kind() == constant.Int {
				bi, _ := new(big.Int).SetString(i.ExactString(), 10)
				return smtBig(bi)
			}
		}
		return "(flt_lit " + smtString(v.ExactString()) + ")"
	}
	return u.zero(t)
}

// valCtor returns the Val constructor/selector for boxing a value of Go type
// t into an interface.
func (u *Universe) valCtor(t types.Type) (ctor, selector string) {
	switch u.sortOf(t) {
	case sortInt:
		if isRefLike(t) {
			return "VRef", "vref"
		}
		return "VInt", "vint"
	case sortBool:
		return "VBool", "vbool"
	case sortString:
		return "VStr", "vstr"
	case sortFlt:
		return "VFlt", "vflt"
	case sortSlice:
		return "VSlice", "vslice"
	}
	return "VBox", "vbox"
}

// box converts a value term of Go type t to a Val term.
func (u *Universe) box(t types.Type, term string) string {
	c, _ := u.valCtor(t)
	if c == "VBox" {
		s := u.sortOf(t)
		if s == sortIface {
			panic("box of interface")
		}
		return "(VBox (" + u.boxFun(s) + " " + term + "))"
	}
	return "(" + c + " " + term + ")"
}

func (u *Universe) boxFun(sort string) string {
	name := "box_" + sanitize(sort)
	u.boxFuns[sort] = name
	return name
}

// unbox converts a Val term to a value of Go type t.
func (u *Universe) unbox(t types.Type, val string) string {
	c, s := u.valCtor(t)
	if c == "VBox" {
		so := u.sortOf(t)
		u.boxFun(so)
		return "(un" + u.boxFun(so) + " (vbox " + val + "))"
	}
	return "(" + s + " " + val + ")"
}

// mkIface builds an interface value holding term (of concrete type t).
func (u *Universe) mkIface(t types.Type, term string) string {
	return fmt.Sprintf("(mk_iface %d %s)", u.tagOf(t), u.box(t, term))
}

// prelude emits all sort declarations. Must be called after all terms of the
// query have been generated (so all struct sorts / tags are known).
func (u *Universe) prelude() string {
	var b strings.Builder
	b.WriteString("(declare-sort Flt 0)\n")
	b.WriteString("(declare-datatypes ((Slice 0)) (((mk_slice (s_arr Int) (s_off Int) (s_len Int) (s_cap Int)))))\n")
	b.WriteString("(declare-datatypes ((Val 0)) (((VInt (vint Int)) (VStr (vstr String)) (VBool (vbool Bool)) (VRef (vref Int)) (VSlice (vslice Slice)) (VFlt (vflt Flt)) (VBox (vbox Int)))))\n")
	b.WriteString("(declare-datatypes ((Iface 0)) (((mk_iface (itag Int) (ival Val)))))\n")
	b.WriteString("(define-fun nil_slice () Slice (mk_slice 0 0 0 0))\n")
	b.WriteString("(define-fun nil_iface () Iface (mk_iface 0 (VRef 0)))\n")
	b.WriteString("(declare-const flt_zero Flt)\n")
	b.WriteString("(declare-fun flt_of_int (Int) Flt)\n(declare-fun flt_lit (String) Flt)\n(declare-fun flt_to_int (Flt) Int)\n")
	b.WriteString("(declare-fun flt_lt (Flt Flt) Bool)\n(declare-fun flt_op (Int Flt Flt) Flt)\n")
	// struct datatypes in dependency order: structOrder is appended after
	// the fields were resolved, so it is already topologically sorted.
	for _, s := range u.structOrder {
		fmt.Fprintf(&b, "(declare-datatypes ((%s 0)) (((mk_%s", s.name, s.name)
		for i := range s.fields {
			fmt.Fprintf(&b, " (%s %s)", s.fields[i], s.sorts[i])
		}
		b.WriteString("))))\n")
	}
	var bs []string
	for s := range u.boxFuns {
		bs = append(bs, s)
	}
	sort.Strings(bs)
	for _, s := range bs {
		fmt.Fprintf(&b, "(declare-fun %s (%s) Int)\n(declare-fun un%s (Int) %s)\n", u.boxFuns[s], s, u.boxFuns[s], s)
	}
	return b.String()
}

type bigInt = big.Int

func newBig(n int64) *big.Int { return big.NewInt(n) }
