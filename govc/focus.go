package main

// Focused query variant: quantified assumptions that share no heap array or
// uninterpreted symbol with the goal are dropped. Dropping assumptions is
// always sound for a proof (fewer hypotheses); if the focused query is not
// unsat the full query is tried.

import (
	"regexp"
	"sort"
	"strings"
)

var tokenRe = regexp.MustCompile(`\|[^|]+\||[A-Za-z_][A-Za-z0-9_.\-]*`)

type focusInfo struct {
	defs     map[string]string   // const -> defining term (from "(assert (= name term))")
	constKey map[string]string   // heap const -> key
	symCache map[string][]string // const -> relevant symbols (memo)
}

func (q *Query) focusInfo(ndecls int, funs map[string]bool) *focusInfo {
	q.focusMu.Lock()
	defer q.focusMu.Unlock()
	if q.focusCached != nil {
		return q.focusCached
	}
	ndecls = len(q.decls)
	fi := &focusInfo{defs: map[string]string{}, constKey: map[string]string{}, symCache: map[string][]string{}}
	defer func() { q.focusCached = fi }()
	// heap consts by suffix
	var keys []string
	for k := range q.heapSort {
		keys = append(keys, k)
	}
	sort.Slice(keys, func(i, j int) bool { return len(keys[i]) > len(keys[j]) })
	skeys := make([]string, len(keys))
	for i, k := range keys {
		skeys[i] = "_" + sanitize(k)
	}
	for name := range q.consts {
		n := strings.Trim(name, "|")
		if i := strings.LastIndex(n, "!"); i > 0 {
			n = n[:i]
		}
		for i, sk := range skeys {
			if strings.HasSuffix(n, sk) {
				fi.constKey[name] = keys[i]
				break
			}
		}
		if strings.Contains(n, "G0_") || strings.HasPrefix(n, "g_") || strings.HasPrefix(n, "gh_") || strings.HasPrefix(n, "gm_") {
			fi.constKey[name] = "ghost:" + n
		}
	}
	for _, d := range q.decls[:ndecls] {
		if strings.HasPrefix(d, "(assert (= |") {
			rest := d[len("(assert (= "):]
			j := strings.Index(rest[1:], "|")
			if j < 0 {
				continue
			}
			name := rest[:j+2]
			fi.defs[name] = rest[j+2:]
		}
	}
	_ = funs
	return fi
}

// symbols returns the heap keys / function symbols a term depends on
// (through definitions, not through the reach chain).
func (fi *focusInfo) symbols(term string, funs map[string]bool, depth int, seen map[string]bool, out map[string]bool) {
	for _, tok := range tokenRe.FindAllString(term, -1) {
		if tok[0] == '|' {
			if seen[tok] {
				continue
			}
			seen[tok] = true
			if k, ok := fi.constKey[tok]; ok {
				out[k] = true
				continue
			}
			n := strings.Trim(tok, "|")
			if strings.HasPrefix(n, "r!") || strings.HasPrefix(n, "qa!") {
				continue // reach chain / other assumptions are not followed
			}
			if def, ok := fi.defs[tok]; ok && depth < 40 {
				fi.symbols(def, funs, depth+1, seen, out)
			}
			continue
		}
		if funs[tok] {
			out["fun:"+tok] = true
		}
	}
}

// focusKeep decides which quantified assumptions stay in the focused query.
func (q *Query) focusKeep(o *Obligation, funs map[string]bool) map[int]bool {
	fi := q.focusInfo(o.NDecls, funs)
	goal := map[string]bool{}
	fi.symbols(o.cond, funs, 0, map[string]bool{}, goal)
	type qd struct {
		idx  int
		syms map[string]bool
	}
	var qds []qd
	for i := range q.quantDefs {
		if i >= o.NDecls {
			continue
		}
		q.focusMu.Lock()
		s, ok := q.quantSyms[i]
		q.focusMu.Unlock()
		if !ok {
			s = map[string]bool{}
			fi.symbols(q.decls[i], funs, 0, map[string]bool{}, s)
			q.focusMu.Lock()
			if q.quantSyms == nil {
				q.quantSyms = map[int]map[string]bool{}
			}
			q.quantSyms[i] = s
			q.focusMu.Unlock()
		}
		qds = append(qds, qd{i, s})
	}
	keep := map[int]bool{}
	for round := 0; round < 2; round++ {
		for _, d := range qds {
			if keep[d.idx] {
				continue
			}
			for s := range d.syms {
				if goal[s] {
					keep[d.idx] = true
					break
				}
			}
		}
		if round == 0 {
			// one step of expansion through the kept assumptions
			for _, d := range qds {
				if keep[d.idx] {
					for s := range d.syms {
						if !strings.HasPrefix(s, "fun:") {
							goal[s] = true
						}
					}
				}
			}
		}
	}
	return keep
}
