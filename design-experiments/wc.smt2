(set-option :produce-models true)
(declare-const n Int)
(declare-const wc (Array Int String))
(declare-const pt (Array Int String))
(declare-const i Int)
; invariant at loop head: 0<=i<=n and forall j<i: wc[j]="" or wc[j]=pt[j]
(assert (and (<= 0 i) (<= i n)))
(assert (forall ((j Int)) (=> (and (<= 0 j) (< j i)) (or (= (select wc j) "") (= (select wc j) (select pt j))))))
; body: i<n, check passes -> i+1 ; prove invariant preserved
(assert (< i n))
(assert (not (and (not (= (select wc i) "")) (not (= (select wc i) (select pt i))))))
(assert (not (forall ((j Int)) (=> (and (<= 0 j) (< j (+ i 1))) (or (= (select wc j) "") (= (select wc j) (select pt j)))))))
(check-sat)
