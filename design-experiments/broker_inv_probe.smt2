; Feasibility probe: broker invariant B5 preserved by syncUnsubscribe (member, any case), hand-encoded
(set-option :produce-models true)
(define-sort Ref () Int)
(declare-const subsDom (Array Int Bool))
(declare-const subsVal (Array Int Ref))
(declare-const subscribers (Array Ref Ref))            ; field subscription.subscribers
(declare-const SessSet (Array Ref (Array Ref Bool)))    ; heap of map[*Session]struct{}
(declare-const SessSetLen (Array Ref Int))
(declare-const ssDom (Array Ref Bool))                  ; b.sessionSubIDSet domain
(declare-const ssVal (Array Ref Ref))
(declare-const IdSet (Array Ref (Array Int Bool)))      ; heap of map[ID]struct{}
(declare-const IdSetLen (Array Ref Int))
(declare-const sess Ref)
(declare-const subID Int)
; invariant B5
(define-fun B5 ((ssDom (Array Ref Bool)) (IdSet (Array Ref (Array Int Bool))) (subsDom (Array Int Bool)) (SessSet (Array Ref (Array Ref Bool)))) Bool
  (forall ((s Ref) (id Int))
    (= (and (select ssDom s) (select (select IdSet (select ssVal s)) id))
       (and (select subsDom id) (select (select SessSet (select subscribers (select subsVal id))) s)))))
(assert (B5 ssDom IdSet subsDom SessSet))
; ownership distinctness
(assert (forall ((a Int) (b Int)) (=> (and (select subsDom a) (select subsDom b) (not (= a b)))
      (not (= (select subscribers (select subsVal a)) (select subscribers (select subsVal b)))))))
(assert (forall ((a Ref) (b Ref)) (=> (and (select ssDom a) (select ssDom b) (not (= a b))) (not (= (select ssVal a) (select ssVal b))))))
; map length axioms for the two maps touched
(define-fun m () Ref (select subscribers (select subsVal subID)))
(define-fun ids () Ref (select ssVal sess))
(assert (>= (select SessSetLen m) 0))
(assert (= (= (select SessSetLen m) 0) (forall ((s Ref)) (not (select (select SessSet m) s)))))
(assert (>= (select IdSetLen ids) 0))
; path: subscription found
(assert (select subsDom subID))
; delete(sub.subscribers, subscriber)
(define-fun SessSet1 () (Array Ref (Array Ref Bool)) (store SessSet m (store (select SessSet m) sess false)))
(define-fun mlen1 () Int (- (select SessSetLen m) (ite (select (select SessSet m) sess) 1 0)))
; after-delete emptiness axiom instance for the updated map
(assert (= (= mlen1 0) (forall ((s Ref)) (not (select (select SessSet1 m) s)))))
; if empty: delete subscription id from subscriptions
(define-fun subsDom1 () (Array Int Bool) (ite (= mlen1 0) (store subsDom subID false) subsDom))
; id set cleanup (3-way)
(define-fun hasSet () Bool (select ssDom sess))
(define-fun hasId () Bool (and hasSet (select (select IdSet ids) subID)))
(define-fun IdSet1 () (Array Ref (Array Int Bool)) (ite hasId (store IdSet ids (store (select IdSet ids) subID false)) IdSet))
(define-fun idlen1 () Int (- (select IdSetLen ids) (ite hasId 1 0)))
(assert (=> hasId (= (= idlen1 0) (forall ((i Int)) (not (select (select IdSet1 ids) i))))))
(define-fun ssDom1 () (Array Ref Bool) (ite (and hasId (= idlen1 0)) (store ssDom sess false) ssDom))
; goal
(assert (not (B5 ssDom1 IdSet1 subsDom1 SessSet1)))
(check-sat)
