(set-logic QF_SLIA)
(declare-const s String)
; C = any char except \t \n \f \r space . #
(define-fun WS () RegLan (re.union (str.to_re "\u{9}") (str.to_re "\u{a}") (str.to_re "\u{c}") (str.to_re "\u{d}") (str.to_re " ")))
(define-fun BAD () RegLan (re.union WS (str.to_re ".") (str.to_re "#")))
(define-fun C () RegLan (re.diff re.allchar BAD))
; code: ^(([^\s\.#]+\.)|\.)*([^\s\.#]+)?$
(define-fun CODE () RegLan (re.++ (re.* (re.union (re.++ (re.+ C) (str.to_re ".")) (str.to_re "."))) (re.opt (re.+ C))))
; spec: C* ( . C* )*
(define-fun SPEC () RegLan (re.++ (re.* C) (re.* (re.++ (str.to_re ".") (re.* C)))))
(assert (xor (str.in_re s CODE) (str.in_re s SPEC)))
(check-sat)
