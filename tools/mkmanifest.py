#!/usr/bin/env python3
# Regenerates /verif/MANIFEST.json from the tables below (kept valid against /root/.vp/MANIFEST.schema.json).
import json, subprocess, sys

TECH = "contract-based deductive verification: VCs over go/ssa (heap, maps, slices, ghost counters), quantified invariants and lemmas, discharged by z3/cvc5; structural ownership checks"

def hook_commits():
    out = subprocess.run(["git", "-C", "/repo", "log", "--format=%h %s"], capture_output=True, text=True).stdout
    return [l.split()[0] for l in out.splitlines() if "verif hook" in l][::-1]

checks = json.load(open("/verif/tools/checks.json"))
na = json.load(open("/verif/tools/not_applicable.json"))
ids = [c["property_id"] for c in checks]
m = {
 "version": 1,
 "setup_cmd": "cd /verif/govc && GOTOOLCHAIN=local GOFLAGS=-mod=mod GOPROXY=off GOSUMDB=off go1.26.8 build -o /verif/bin/govc .",
 "hooks": {
  "guard": "verif (Go build tag)",
  "enable": "packages are loaded with -tags=verif; the only hook files are comment-only <pkg>/verif_contracts.go (contracts as //@ comments), which add no code with or without the tag",
  "baseline_off_cmd": "cd /repo && go test -mod=mod -vet=off -count=1 -timeout 25m ./...",
  "source_commits": hook_commits(),
  "add_only": True,
 },
 "engines": [{
   "name": "govc", "path": "/verif/govc", "serves_properties": ids,
   "kind_free_text": "verification-condition generator over go/ssa for the real /repo sources; contracts in //@ comments; obligations discharged by z3-new 5.1.0 / z3 4.8.12 / cvc5 1.0 (portfolio); counterexamples replayed on the real code with go test -overlay"}],
 "checks": [],
 "not_applicable": [n for n in na if n["property_id"] not in ids],
 "notes": "All checks rebuild their SSA from /repo's working tree on every run. Scratch files go to os.TempDir and are removed. Solver verdicts for byte-identical query text are memoised under /verif/work/cache (not committed); queries are always regenerated.",
}
for c in checks:
    pid = c["property_id"]
    m["checks"].append({
        "property_id": pid,
        "quick_cmd": f"bin/govc check -property {pid} -tier quick",
        "thorough_cmd": f"bin/govc check -property {pid} -tier thorough",
        "evidence_file": f"/verif/evidence/{pid}.json",
        "replay_cmd_template": "bin/govc replay {path}",
        "engine": "govc",
        "level_claimed": {"category": c.get("category", "proof"), "text": c["text"], "design_ref": f"DESIGN.md section 5 {pid}"},
        "level_note": c["note"],
        "technique": c.get("technique", TECH),
    })
json.dump(m, open("/verif/MANIFEST.json", "w"), indent=1)
print("wrote MANIFEST.json:", len(m["checks"]), "checks,", len(m["not_applicable"]), "not applicable")
