#!/bin/bash
# usage: seedcheck.sh <seed-dir> <property...>
# Applies <seed-dir>/patch.diff to a scratch copy of /repo and runs the registered quick checks of the given properties on it.
# Exit 0 = at least one check reported a VIOLATION (seed detected).
set -u
sd=$1; shift
export PATH=/opt/veriftools/go1.26.8/bin:$PATH GOTOOLCHAIN=local GOFLAGS=-mod=mod GOPROXY=off GOSUMDB=off
scratch=/tmp/mut/$(basename $(dirname $sd))-$$
rm -rf $scratch; mkdir -p /tmp/mut; cp -r /repo $scratch; rm -rf $scratch/.git
(cd $scratch && git init -q . && git apply --whitespace=nowarn $sd/patch.diff) || { echo "PATCH DOES NOT APPLY"; rm -rf $scratch; exit 3; }
(cd $scratch && go build ./...) || { echo "DOES NOT COMPILE"; rm -rf $scratch; exit 3; }
found=1
for p in "$@"; do
  out=$(/verif/bin/govc check -property $p -tier quick -no-evidence -repo $scratch 2>&1 | grep -v "^WARNING")
  echo "$out" | grep "^VIOLATION\|^  obligation\|^property" | cut -c1-260 | head -12
  if echo "$out" | grep -q "^VIOLATION"; then found=0; fi
done
rm -rf $scratch
exit $found
