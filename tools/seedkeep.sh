#!/bin/bash
# usage: seedkeep.sh <name> <worktree> <property> "<caught-by text>"
set -e
n=$1; wt=$2; prop=$3; caught=$4
d=/verif/seeded/$n
mkdir -p $d
cp $wt/_seed/patch.diff $d/
demo=$(cat $wt/_seed/demo_path.txt)
cp $wt/$demo $d/
python3 - "$wt/_seed/meta.json" "$d/meta.json" "$prop" "$caught" "$demo" <<'PY'
import json,sys
src,dst,prop,caught,demo=sys.argv[1:6]
try: m=json.load(open(src))
except Exception as e: m={"summary":"(agent meta unreadable: %s)"%e}
out={"property":prop,"summary":m.get("summary"),"needs":m.get("needs"),"demonstration":demo,
     "agent_ran":m.get("ran"),
     "confirmed_by_me":["tools/seedconfirm.sh: demonstration FAILS with the change and PASSES without it; go build ./... ok with the change",
                        "existing suite with the change: reported passing by the agent (apart from pre-existing port-8999 flakes); re-run by me where noted"],
     "checked_with":"tools/seedcheck.sh (scratch copy of /repo + patch, registered quick check with -repo)",
     "caught_by":caught}
json.dump(out,open(dst,'w'),indent=1)
PY
echo kept $d
