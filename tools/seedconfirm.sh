#!/bin/bash
# usage: seedconfirm.sh <worktree> <pkgdir> <TestName>
# Confirms in the agent's scratch worktree that the demonstration fails with the change and passes without it.
set -u
wt=$1; pkg=$2; t=$3
export PATH=/opt/veriftools/go1.26.8/bin:$PATH GOTOOLCHAIN=local GOFLAGS=-mod=mod GOPROXY=off GOSUMDB=off
cd $wt
git apply --check -R _seed/patch.diff 2>/dev/null || { echo "patch not currently applied"; }
echo "== with change"; go test -vet=off -count=1 -timeout 120s -run "^$t\$" ./$pkg/ 2>&1 | tail -4
git apply -R _seed/patch.diff
echo "== without change"; go test -vet=off -count=1 -timeout 120s -run "^$t\$" ./$pkg/ 2>&1 | tail -3
git apply _seed/patch.diff
echo "== build+vet with change"; go build ./... && echo build-ok
