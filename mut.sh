#!/bin/bash
# usage: mut.sh <file> <python-replace-old> <python-replace-new> <unit patterns...>
# applies one textual mutation to a scratch copy of /repo and runs govc unit on it
set -e
f=$1; old=$2; new=$3; shift 3
rm -rf /tmp/mut && mkdir -p /tmp/mut && cp -r /repo /tmp/mut/repo
python3 - "$f" "$old" "$new" <<'PY'
import sys
p='/tmp/mut/repo/'+sys.argv[1]
s=open(p).read()
assert sys.argv[2] in s, "pattern not found"
s=s.replace(sys.argv[2], sys.argv[3], 1)
open(p,'w').write(s)
PY
(cd /tmp/mut/repo && PATH=/opt/veriftools/go1.26.8/bin:$PATH GOFLAGS=-mod=mod GOPROXY=off GOSUMDB=off GOTOOLCHAIN=local go build ./... ) || { echo "MUTANT DOES NOT COMPILE"; exit 3; }
/verif/bin/govc unit ${SWEEP:+-sweep} -repo /tmp/mut/repo "$@" 2>&1 | grep -v "^      model\|^unit \|^loaded" | cut -c1-150 | tail -8
rm -rf /tmp/mut
